"""C14 -- constant folding computes the value, signedness and width that C++ computes.

Spec:  lang/CExpr.tla (+ lib/CTypes.tla, lib/BV.tla); constants mc/MC_CExpr.tla, mc/MC_BV.tla
MC:    mc/BV_check*.cfg (byte-limb arithmetic theorems), mc/CExpr_design.cfg (machine = definition,
       totality, SkipOperand exactly for the unevaluated operands, static type)
R:     mc/CExpr_gen_*.cfg (exhaustive depth <= 1), mc/CExpr_sim.cfg (random depth <= 3)
       -> harness/cexpr_replay.cpp (tokenizer + expressionParser::parse + evaluate())
Two-oracle rule: every prediction of the spec is first checked against g++ (one generated TU of
static_assert/decltype probes, -std=c++17); a disagreement spec != g++ breaks the check (exit 2).
Python renders texts, compares and classifies; it contains no C++ semantics.
"""
import json, os, re, subprocess
from fractions import Fraction
from vlib import Broken, b_json, run_replayer, sh

TYCODE = {"bool": 1, "int": 6, "uint": 7, "long": 8, "ulong": 9, "float": 10, "double": 11}
TYNAME = {v: k for k, v in TYCODE.items()}
TYNAME.update({2: "int8", 3: "uint8", 4: "int16", 5: "uint16", 0: "none", -1: "?"})
BYTES = {"bool": 1, "int": 4, "uint": 4, "long": 8, "ulong": 8}
DIG = "0123456789ABCDEF"


# ------------------------------------------------------------------ rendering (dumb)
def lit_text(l):
    if l["k"] == "bool":
        return "true" if l["b"] else "false"
    if l["k"] == "flt":
        q = Fraction(l["m"], 2 ** l["e"])
        ip, fr = divmod(q, 1)
        s = str(ip) + "."
        if fr == 0:
            s += "0"
        while fr:
            fr *= 10
            d, fr = divmod(fr, 1)
            s += str(d)
        t = s + ("f" if l["f"] else "")
    else:
        pre = {10: "", 16: "0x", 8: "", 2: "0b"}[l["radix"]]
        t = pre + "".join(DIG[d] for d in l["digs"]) + ("u" if l["u"] else "") + "l" * l["l"]
    return ("-" + t) if l["neg"] else t


def lit_class(l):
    if l["k"] == "bool":
        return "bool"
    if l["k"] == "flt":
        return "flt" + ("f" if l["f"] else "")
    return "r%d%s%s" % (l["radix"], "u" if l["u"] else "", "l" * l["l"])


ARITY = {"lit": 0, "un": 1, "bin": 2, "log": 2, "tern": 3}


def end_of(pre, p):          # 0-based: index just after the sub-expression starting at p
    q = p + 1
    for _ in range(ARITY[pre[p]["k"]]):
        q = end_of(pre, q)
    return q


def children(pre, p):
    out, q = [], p + 1
    for _ in range(ARITY[pre[p]["k"]]):
        out.append(q)
        q = end_of(pre, q)
    return out


def render(pool, pre, p, top=True):
    n = pre[p]
    if n["k"] == "lit":
        l = pool[n["i"] - 1]
        t = lit_text(l)
        return t if top or not (l["k"] != "bool" and l["neg"]) else "(" + t + ")"
    ch = [render(pool, pre, c, False) for c in children(pre, p)]
    if n["k"] == "un":
        s = n["op"] + ch[0]
    elif n["k"] == "tern":
        s = "%s ? %s : %s" % tuple(ch)
    else:
        s = "%s %s %s" % (ch[0], n["op"], ch[1])
    return s if top else "(" + s + ")"


def bits_of(v):
    return sum(b << (8 * i) for i, b in enumerate(v))


# ------------------------------------------------------------------ g++ cross-check of the spec
PRELUDE = r"""#include <type_traits>
template<class T> constexpr int tc() {
  return std::is_same<T,bool>::value ? 1
       : std::is_floating_point<T>::value ? (sizeof(T) == 4 ? 10 : 11)
       : std::is_signed<T>::value ? (sizeof(T) == 4 ? 6 : 8) : (sizeof(T) == 4 ? 7 : 9);
}
"""


def probe_line(text, rec, n):
    # (no macros: g++ reports an error inside a macro argument at the macro's definition line)
    if rec["st"] == "ok":
        if rec["t"] in ("float", "double"):
            f = rec["f"]
            return ("static_assert(tc<decltype(%s)>() == %d && (double)(%s) == %s((double)%dull / (double)%dull), \"\");"
                    % (text, TYCODE[rec["t"]], text, "-" if f["neg"] else "+", bits_of(f["m"]), 2 ** f["e"]))
        return ("static_assert(tc<decltype(%s)>() == %d && (unsigned long long)(%s) == %dull, \"\");"
                % (text, TYCODE[rec["t"]], text, bits_of(rec["v"])))
    return "constexpr auto u%d = (%s);" % (n, text)


def gxx_crosscheck(ctx, items):
    """items: list of (text, rec) with rec.st in ok/undef/illformed.  Raises Broken on any spec != g++."""
    src = os.path.join(ctx.tmp, "c14_probe.cpp")
    base = PRELUDE.count("\n") + 1
    with open(src, "w") as f:
        f.write(PRELUDE)
        for n, (text, rec) in enumerate(items):
            f.write(probe_line(text, rec, n) + "\n")
    rc, out = sh(["g++", "-std=c++17", "-fsyntax-only", "-w", "-fmax-errors=0", "-ftemplate-depth=64", src],
                 timeout=900)
    bad = set()
    for m in re.finditer(r"c14_probe\.cpp:(\d+):\d+: (?:fatal )?error", out):
        bad.add(int(m.group(1)) - base)
    wrong = []
    for n, (text, rec) in enumerate(items):
        expect_error = rec["st"] != "ok"
        if (n in bad) != expect_error:
            wrong.append((text, rec["st"], rec.get("t"), "g++ %s it" % ("rejects" if n in bad else "accepts")))
    if rc not in (0, 1):
        raise Broken("g++ probe run failed rc=%s: %s" % (rc, out[-2000:]))
    if wrong:
        first = wrong[:8]
        raise Broken("two-oracle rule: the spec disagrees with g++ on %d of %d probes (the CHECK is wrong, "
                     "not OCCA): %s\n%s" % (len(wrong), len(items), first,
                                            "\n".join(l for l in out.splitlines() if "error" in l)[:3000]))
    return len(items)


# ------------------------------------------------------------------ main
def tlc_gen(ctx, cfg, sim=None, workers=4, timeout=2400):
    g = ctx.tlc("mc/MC_CExpr.tla", cfg, workers=workers, simulate=sim, depth=(120 if sim else None),
                deadlock=False, timeout=timeout, jvm=("-XX:ParallelGCThreads=2",))
    if g.rc != 0 and not g.printed:
        raise Broken("generation failed (%s): %s" % (cfg, g.out[-2000:]))
    bs = b_json(g)
    if not bs:
        raise Broken("no behaviours generated by %s:\n%s" % (cfg, g.out[-1500:]))
    m = re.search(r'^<<"P", (".*")>>$', g.out, re.M)
    if not m:
        raise Broken("pool not printed by %s" % cfg)
    return bs, json.loads(json.loads(m.group(1)))


def replay_sharded(ctx, exe, env, cases, shards=4):
    """run_replayer over `shards` contiguous chunks in parallel; indices are mapped back.  Every case may
    crash the replayer (UBSan halts), so the restart budget is the number of cases."""
    import threading, time
    n = len(cases)
    bounds = [(k * n // shards, (k + 1) * n // shards) for k in range(shards)]
    res = [None] * shards

    def work(k):
        lo, hi = bounds[k]
        try:
            time.sleep(0.01 * k)          # distinct file names inside run_replayer (time based)
            res[k] = run_replayer(ctx, exe, env, cases[lo:hi], max_restarts=hi - lo + 5, timeout=3000)
        except Exception as e:            # noqa
            res[k] = e
    ths = [threading.Thread(target=work, args=(k,)) for k in range(shards)]
    for t in ths:
        t.start()
    for t in ths:
        t.join()
    outs, crashes = {}, []
    for k, r in enumerate(res):
        if isinstance(r, Exception):
            raise r if isinstance(r, Broken) else Broken("replayer shard failed: %r" % r)
        lo = bounds[k][0]
        for i, o in r[0].items():
            outs[i + lo] = o
        for c in r[1]:
            c = dict(c)
            c["beh"] += lo
            crashes.append(c)
    return outs, crashes


def crash_label(c):
    lab = c["crash"]
    log = c.get("log", "")
    if "runtime error:" in log:
        m = re.search(r"runtime error: ([a-z -]+?)(?: by| of|:| \d|$)", log)
        lab = "ubsan-" + (m.group(1).strip().replace(" ", "-") if m else "report")
    return lab


def run(ctx):
    thorough = ctx.tier == "thorough"
    jvm = ("-XX:ParallelGCThreads=2",)
    # ---- 1. model checking of the spec itself
    r = ctx.tlc("mc/MC_BV.tla", "mc/BV_check_full.cfg" if thorough else "mc/BV_check.cfg", workers=1, jvm=jvm)
    ctx.tlc_must_pass(r, "BV arithmetic theorems")
    r = ctx.tlc("mc/MC_CExpr.tla", "mc/CExpr_design.cfg", workers=4, coverage=True, jvm=jvm, timeout=2400)
    ctx.tlc_must_pass(r, "CExpr design (machine = definition, totality)")
    ctx.require_coverage(r, ["GenLit", "GenUn", "GenBin", "GenTern", "Start", "EvalLit", "Enter", "EnterTern",
                             "ApplyUn", "HoldLeft", "ApplyBin", "DecideLog", "ApplyLog", "DecideTern",
                             "ChoseThen", "ChoseElse", "SkipOperand", "Abort", "Done"])
    # ---- 2. behaviours (expressions with predictions)
    n_sim = int(os.environ.get("C14_SIM", "1500" if thorough else "150"))   # per worker (4 workers)
    gens = [("mc/CExpr_gen_full.cfg" if thorough else "mc/CExpr_gen_quick.cfg", None),
            ("mc/CExpr_gen_tern.cfg", None), ("mc/CExpr_gen_guard.cfg", None), ("mc/CExpr_sim.cfg", n_sim)]
    behs, pool = [], None
    for cfg, sim in gens:
        bs, p = tlc_gen(ctx, cfg, sim)
        if pool is not None and p != pool:
            raise Broken("pools differ between generation runs")
        pool = p
        behs += bs
    # ---- 3. the node-level cases: every evaluated node of every behaviour, by text
    cases = {}      # text -> dict(rec, op, types, lit, skipped, kids)
    status = {"ok": 0, "undef": 0, "inexact": 0, "illformed": 0}
    roots = []
    seen_roots = set()
    undef_nodes = {}
    for b in behs:
        pre, res, nv = b["res"]["pre"], b["res"], b["nv"]
        rt = render(pool, pre, 0)
        if rt in seen_roots:
            continue
        seen_roots.add(rt)
        status[res["st"]] += 1
        roots.append((rt, res))
        if res["st"] == "illformed":
            continue
        for p in range(len(pre)):
            x = nv[p]
            if x["st"] == "undef":
                # the operation at which evaluation stops: defined operands, undefined result.  This
                # minimal sub-expression is what g++ must reject (g++'s folder loses the overflow flag
                # of some larger trees, e.g. -((-1u) * 4294967296))
                undef_nodes[render(pool, pre, p)] = x
            if x["st"] != "ok":        # not evaluated (skipped / after an abort) or undefined / inexact
                continue
            text = render(pool, pre, p)
            if text in cases:
                if cases[text]["rec"] != x:
                    raise Broken("spec not a function of the text: %s -> %s vs %s" % (text, cases[text]["rec"], x))
                continue
            n = pre[p]
            kids = children(pre, p)
            if n["k"] == "lit":
                l = pool[n["i"] - 1]
                shape = "lit:%s:%s" % (lit_class(l), x["t"])
            else:
                tys = [nv[c]["t"] if nv[c]["st"] == "ok" else "unevaluated" for c in kids]
                if n["k"] == "tern":
                    # what matters for ?: is the conversion of the chosen arm to the common type
                    shape = "?::%s->%s" % ([t for t in tys[1:] if t != "unevaluated"][0], x["t"])
                else:
                    shape = "%s:%s" % (n["op"], ",".join(tys))
            cases[text] = {"rec": x, "shape": shape,
                           "kids": [render(pool, pre, c) for c in kids if nv[c]["st"] == "ok"]}
    texts = sorted(cases)
    # ---- 4. two-oracle rule: the spec's predictions against g++
    probes = [(t, cases[t]["rec"]) for t in texts]
    probes += [(rt, res) for (rt, res) in roots if res["st"] == "illformed"]
    probes += sorted(undef_nodes.items())
    n_probes = gxx_crosscheck(ctx, probes)
    # ---- 5. replay on the real expressionParser / evaluate()
    exe, lib = ctx.build_harness("cexpr_replay", ["cexpr_replay.cpp"])
    env = ctx.occa_env(lib)
    outs, crashes = replay_sharded(ctx, exe, env, [{"e": t} for t in texts])
    crashed = {c["beh"]: c for c in crashes}
    verdict = {}
    for i, t in enumerate(texts):
        rec = cases[t]["rec"]
        o = outs.get(i)
        if o is None:
            c = crashed.get(i)
            verdict[t] = ("crash-" + crash_label(c) if c else "crash-lost", "process died")
            continue
        if o["st"] != "ok":
            verdict[t] = (o["st"], o.get("msg", o["st"]))
            continue
        want_ty = TYCODE[rec["t"]]
        if rec["t"] in ("float", "double"):
            f = rec["f"]
            want = (-1 if f["neg"] else 1) * Fraction(bits_of(f["m"]), 2 ** f["e"])
            import struct
            got = struct.unpack("<d", struct.pack("<Q", int(o["f"], 16)))[0]
            val_ok = o["ty"] in (10, 11) and got == got and abs(got) != float("inf") and Fraction(got) == want
            got_s = repr(got)
            want_s = str(float(want))
        else:
            mask = (1 << (8 * BYTES[rec["t"]])) - 1
            want_bits = bits_of(rec["v"]) & mask
            got_bits = int(o["bits"], 16)
            val_ok = o["ty"] in (1, 6, 7, 8, 9) and got_bits == want_bits
            got_s, want_s = hex(got_bits), hex(want_bits)
        if o["ty"] != want_ty:
            verdict[t] = ("type", "type %s (value %s), C++ %s (value %s)" % (TYNAME.get(o["ty"], o["ty"]), got_s,
                                                                              rec["t"], want_s))
        elif not val_ok:
            verdict[t] = ("value", "value %s, C++ %s of type %s" % (got_s, want_s, rec["t"]))
        else:
            verdict[t] = None
    checked = masked = 0
    for t in texts:
        v = verdict[t]
        if v is None:
            checked += 1
            continue
        # attribute to the smallest failing sub-expression: a node is judged only if its evaluated
        # operands were folded correctly
        if any(verdict.get(kt) is not None for kt in cases[t]["kids"]):
            masked += 1
            continue
        checked += 1
        kind, what = v
        ctx.mismatch("%s:%s" % (kind, cases[t]["shape"]), "`%s`: OCCA %s" % (t, what), [{"e": t, "spec": cases[t]["rec"]}])
    ctx.traces_validated = len(texts)
    ctx.samples = [{"expr": t, "spec": cases[t]["rec"]} for t in (texts[0], texts[len(texts) // 2], texts[-1])]
    ctx.cov.update({"expressions_generated": len(roots), "expressions_by_status": status,
                    "node_expressions_replayed": len(texts), "nodes_judged": checked,
                    "nodes_masked_by_failing_operand": masked, "gxx_probes": n_probes,
                    "replayer_restarts": len(crashes)})
    ctx.assumptions += [
        "LP64; long and long long are one 64-bit type (the property speaks of value, signedness, width)",
        "defined = defined by C++17 as g++ 12 evaluates constant expressions; >> of a negative value is arithmetic",
        "floating point restricted to dyadic rationals that float/double represent exactly (m/2^e, e <= 16); "
        "results outside that fragment are not compared (counted as inexact)",
        "expressions whose C++ result is undefined or ill-formed are not run through OCCA (their defined "
        "sub-expressions are)",
        "literals: decimal/hex/octal/binary with u, l, ul, ll suffixes from a fixed pool of 58; no character literals",
        "UBSan active in the library during replay; a report or signal is a crash mismatch attributed to the expression"]
    return ctx.finish(exhaustive=False)
