"""C06 -- kernel cache keys separate every build configuration.
Spec cache/KernelKey.tla (MC: mc/KernelKey_design.cfg ...); replayers harness/kernelkey_replay.cpp
(keys through device::setupKernelInfo) and harness/kernelbuild_replay.cpp (real builds, one
fresh process per build, shared cache directory).
"""
import json, os, random, shutil, subprocess, concurrent.futures
from vlib import Broken, b_json, run_replayer, sh, VERIF
import c06_bind as bind

ACTIONS = ["Next"]


def classify(c1, c2):
    """Shape of a pair of configurations (spec tokens) -- used for the mismatch signature only."""
    diff = sorted(p for p in c1 if c1[p] != c2[p] and p != "route")
    kinds = sorted(set(bind.kind(p) for p in diff))
    v1 = sorted(c1[p] for p in diff)
    v2 = sorted(c2[p] for p in diff)
    if len(diff) == 1:
        shape = "single"
    elif v1 == v2:
        shape = "swap"          # the same values, distributed differently over the properties
    elif all(len(set(c[p] for p in diff)) == 1 for c in (c1, c2)):
        shape = "cancel"        # equal values inside each configuration
    else:
        shape = "other"
    routes = "+".join(sorted(set([c1.get("route", "flat"), c2.get("route", "flat")])))
    return "%s:%s:%d:%s" % (shape, "+".join(kinds), len(diff), routes), diff


def key_tier(ctx, behaviours, exe, env_base, flavours):
    """All configurations TLC generated, on both devices, for every value flavour, each in two
    separate processes: equal effective inputs <=> equal key (and equal cache directory)."""
    per_mode = {}
    for b in behaviours:
        assert len(b) == 1
        per_mode.setdefault(b[0]["mode"], []).append(b[0])
    evaluations, pairs = 0, 0
    rnd = random.Random(ctx.seed)
    for fl in flavours:
        for mode, all_steps in sorted(per_mode.items()):
            # routed configurations only in the flavours where an override replaces the whole value
            steps = [s for s in all_steps if s["cfg"].get("route", "flat") == "flat" or fl in bind.OVERRIDE_SAFE]
            items = []
            for s in steps:
                ptxt, dtxt = bind.props_text(s["cfg"], fl, mode)
                items.append({"props": ptxt, "dev": dtxt, "src": bind.source_text(s["cfg"]["source"])})
            effs = [json.dumps(s["exp"]["ran"], sort_keys=True) for s in steps]
            runs = []
            for proc in range(2):
                order = list(range(len(items)))
                if proc == 1:
                    rnd.shuffle(order)      # a different process, a different order of calls
                case = {"mode": mode, "items": [items[i] for i in order]}
                env = dict(env_base)
                env["OCCA_CACHE_DIR"] = os.path.join(ctx.tmp, "keycache")   # the same (empty) cache for both
                outs, crashes = run_replayer(ctx, exe, env, [case], timeout=600)
                if crashes or 0 not in outs:
                    ctx.mismatch("key-tier-crash:%s" % mode, "key computation crashed: %s" % (crashes[:1],), [case])
                    runs.append(None)
                    continue
                o = outs[0]
                if any(o["err"]):
                    j = o["err"].index(1)
                    raise Broken("key computation raised for %s: %s" % (case["items"][j], o["keys"][j]))
                if o["mode"] != mode:
                    raise Broken("device mode %s is not available (got %s)" % (mode, o["mode"]))
                keys, dirs = [None] * len(items), [None] * len(items)
                for pos, i in enumerate(order):
                    keys[i], dirs[i] = o["keys"][pos], o["dirs"][pos]
                runs.append((keys, dirs))
                evaluations += len(items)
            if None in runs:
                continue
            (k1, d1), (k2, d2) = runs
            for i in range(len(items)):
                if k1[i] != k2[i] or d1[i] != d2[i]:
                    ctx.mismatch("key-unstable:%s" % mode,
                                 "identical builds in two processes got different keys: %s vs %s for %s" % (k1[i], k2[i], items[i]),
                                 [{"mode": mode, "flavour": fl, "cfg": steps[i]["cfg"], "item": items[i]}])
            for what, vals in (("key", k1), ("dir", d1)):
                groups = {}
                for i, v in enumerate(vals):
                    groups.setdefault(v, []).append(i)
                for v, idx in groups.items():
                    distinct = {}
                    for i in idx:
                        distinct.setdefault(effs[i], i)
                    if len(distinct) > 1:
                        ii = sorted(distinct.values())
                        cls, diff = classify(steps[ii[0]]["cfg"], steps[ii[1]]["cfg"])
                        ctx.mismatch("%s-collision:%s" % (what, cls),
                                     "%s: different build inputs share the cache %s %s: %s | %s (differ in %s)" %
                                     (mode, what, v, items[ii[0]]["props"] + " dev " + items[ii[0]]["dev"], items[ii[1]]["props"] + " dev " + items[ii[1]]["dev"], diff),
                                     [{"mode": mode, "flavour": fl, "cfgs": [steps[i]["cfg"] for i in ii[:2]],
                                       "items": [items[i] for i in ii[:2]], "key": v}])
            # equal effective inputs (through different routes) must resolve to the same entry
            by_eff = {}
            for i, e in enumerate(effs):
                by_eff.setdefault(e, []).append(i)
            for e, idx in by_eff.items():
                ks = {}
                for i in idx:
                    ks.setdefault((k1[i], d1[i]), i)
                if len(ks) > 1:
                    ii = sorted(ks.values())
                    c1, c2 = steps[ii[0]]["cfg"], steps[ii[1]]["cfg"]
                    kinds = "+".join(sorted(set(bind.kind(p) for p in c1 if p not in ("route", "source") and (c1[p] != "e" or c2[p] != "e")))) or "none"
                    ctx.mismatch("key-split:%s:%s+%s" % (kinds, c1.get("route"), c2.get("route")),
                                 "%s: equal effective inputs get different cache entries %s / %s: props %s dev %s | props %s dev %s" %
                                 (mode, k1[ii[0]][:16], k1[ii[1]][:16], items[ii[0]]["props"], items[ii[0]]["dev"],
                                  items[ii[1]]["props"], items[ii[1]]["dev"]),
                                 [{"mode": mode, "flavour": fl, "cfgs": [c1, c2], "items": [items[i] for i in ii[:2]]}])
            n = len(items)
            pairs += n * (n - 1) // 2
            if fl == flavours[0] and mode == "Serial":
                ctx.samples += [{"cfg": {p: v for p, v in steps[i]["cfg"].items() if v != "e"}, "props": items[i]["props"], "dev": items[i]["dev"], "key": k1[i][:16]}
                                for i in (0, n // 3, n - 1)]
    return evaluations, pairs


def run(ctx):
    thorough = ctx.tier == "thorough"
    # 1. the model: the repaired composition separates every pair of inputs; vacuity via coverage
    r = ctx.tlc("mc/MC_KernelKey.tla", "mc/KernelKey_design.cfg", workers=4, coverage=True, deadlock=False)
    ctx.tlc_must_pass(r, "KernelKey design (tagged composition)")
    ctx.require_coverage(r, ACTIONS)
    rr = ctx.tlc("mc/MC_KernelKey.tla", "mc/KernelKey_routes.cfg", workers=4, deadlock=False)
    ctx.tlc_must_pass(rr, "KernelKey routes (every property through every route)")
    if thorough:
        y = ctx.tlc("mc/MC_KernelKey.tla", "mc/KernelKey_rawhdr.cfg", workers=4, deadlock=False, expect_violation=True, count=False)
        if y.violated not in ("RunsOwnConfig", "SameEntry", "KeySeparates"):
            raise Broken("the raw-props header composition was not rejected by the model: rc=%s violated=%s" % (y.rc, y.violated))
        # the composition of the code as found must be rejected by the same invariants
        # (the model is sensitive to the defect class)
        x = ctx.tlc("mc/MC_KernelKey.tla", "mc/KernelKey_xor.cfg", workers=4, deadlock=False, expect_violation=True, count=False)
        if x.violated not in ("RunsOwnConfig", "SameEntry", "KeySeparates"):
            raise Broken("the XOR composition was not rejected by the model: rc=%s violated=%s" % (x.rc, x.violated))
        for cfg in ("mc/KernelKey_all2.cfg", "mc/KernelKey_kind.cfg"):
            r2 = ctx.tlc("mc/MC_KernelKey.tla", cfg, workers=8, deadlock=False, timeout=2400)
            ctx.tlc_must_pass(r2, cfg)
    # 2. configurations generated by TLC
    g = ctx.tlc("mc/MC_KernelKey.tla", "mc/KernelKey_gen3.cfg" if thorough else "mc/KernelKey_gen2.cfg",
                workers=1, deadlock=False, timeout=2400)
    behaviours = b_json(g)
    if g.rc != 0 or not behaviours:
        raise Broken("generation failed: rc=%s\n%s" % (g.rc, g.out[-1500:]))
    exe, lib = ctx.build_harness("kernelkey_replay", ["kernelkey_replay.cpp"], variant="fast")
    env = bind.fixed_env(ctx.occa_env(lib))
    flavours = list(range(len(bind.FLAVOURS))) if thorough else [0, 1]
    evaluations, pairs = key_tier(ctx, behaviours, exe, env, flavours)
    ctx.traces_validated = len(behaviours) * len(flavours)
    ctx.cov.update({"configurations": len(behaviours), "key_evaluations": evaluations,
                    "config_pairs_compared": pairs, "value_flavours": len(flavours)})
    ctx.assumptions += [
        "hashes are ideal in the model (different strings never collide); the replay compares real hash_t values",
        "value tokens e/a/b per input; a/b are concretised by the tables in checks/c06_bind.py (several flavours); at most %d inputs set at once in the replayed configurations" % (3 if thorough else 2),
        "process environment fixed and free of OCCA_CXX/OCCA_CXXFLAGS/OCCA_LDFLAGS/... overrides so that every listed property is effective",
        "routes: all properties of one configuration take the same route (flat / modes/<mode> / generic+override / other mode / device kernel default / device kernel/modes/<mode> / device default + override); routed configurations have at most %d properties set and use the value flavours in which an override replaces the whole value" % (2 if thorough else 1),
        "devices: Serial and OpenMP (the only run-time modes compiled in); builds on different devices are not compared",
    ]
    # 3. build tier: real builds in fresh processes sharing one cache directory
    if thorough:
        import c06_build
        c06_build.build_tier(ctx)
    return ctx.finish(exhaustive=False)
