"""C24 -- JSON dump/parse round trip, deterministic dump.
Spec types/JsonText.tla (Dump / Parse as recursive operators over an abstract byte alphabet);
MC: mc/JsonText_design*.cfg (RoundTrip in every reachable document), mc/JsonText_base.cfg (the
verbatim-key dump of the unrepaired code must violate RoundTrip: sensitivity);
generation mc/JsonText_gen{A,B,C,Z}.cfg, JsonText_sim.cfg; replayer harness/json_replay.cpp.

Per step of a behaviour (= one API call that extends the document) the replayer reports, for
several indentations, the dumped text, the outcome of json::parse on it, operator==, the
structure of the parsed value read through the API, the re-dumped text and the hashes.
Predictions (all from the spec):
  * the structure of the built document is the spec's document (binds the build);
  * Parse(Dump(doc, i)) = doc: parse succeeds, == holds, the structure of the parsed value is the
    spec's document (numbers by mathematical value), dump(parse(text)) = text, equal hashes;
  * dump is a function of the value: dumping twice, and dumping a second copy of the document
    built in reverse insertion order through other API spellings, gives the same text and hash.
The spec's own text (Dump(doc,0), Dump(doc,2)) is compared with the implementation's text as a
statistic (how well the model describes the format); a difference there is not a violation.
"""
import json as pyjson
import random, struct
from vlib import Broken, b_json
from a1util import b_json_tolerant, run_cases_par, crash_sig, latin1, Phases, tlc_many, load_replay, finish_keeping_evidence

INDENTS = [0, 2, 1, 4, -1]

# content symbol -> byte (in the byte order the spec's Sym sequences list them)
FIXED = {"NUL": 0x00, "BS": 0x08, "FF": 0x0c, "CR": 0x0d, "b": 0x62, "f": 0x66, "r": 0x72, "t": 0x74, "TAB": 0x09, "NL": 0x0a, "QUOTE": 0x22, "SLASH": 0x2f, "BSLASH": 0x5c, "n": 0x6e, "u": 0x75}
LO_RANGE = [c for c in range(0x23, 0x2f)]          # # $ % & ' ( ) * + , - .
HI_RANGE = [c for c in range(0x76, 0x100)]         # v w x y z { | } ~ DEL and every byte >= 0x80
TEXT = {"SP": b" ", "NL": b"\n", "{": b"{", "}": b"}", "[": b"[", "]": b"]", ":": b":", ",": b",",
        "b": b"b", "f": b"f", "r": b"r", "t": b"t", "null": b"null", "true": b"true", "false": b"false"}


def f32(x):
    return struct.unpack("<f", struct.pack("<f", x))[0]


def num_table(rng):
    """number token -> (type, literal for the harness, expected structure string)"""
    T = {}

    def I(tok, typ, v):
        T["#%s:%s" % (typ, tok)] = (typ, str(v), "I%d" % v)

    def F(tok, typ, v):
        if typ == "f32":
            v = f32(v)
        T["#%s:%s" % (typ, tok)] = (typ, float(v).hex(), "F" + struct.pack(">d", v).hex())
    I("0", "u8", 0); I("max", "u8", 255); I("min", "i8", -128); I("-1", "i8", -1); I("max", "i8", 127)
    I("max", "u16", 65535); I("min", "i16", -32768); I("max", "i16", 32767)
    I("0", "u32", 0); I("max", "u32", 2 ** 32 - 1); I("big", "u32", rng.randrange(2 ** 31, 2 ** 32))
    I("min", "i32", -2 ** 31); I("-1", "i32", -1); I("0", "i32", 0); I("1", "i32", 1); I("max", "i32", 2 ** 31 - 1)
    I("0", "u64", 0); I("max", "u64", 2 ** 64 - 1); I("big", "u64", rng.randrange(2 ** 63, 2 ** 64))
    I("min", "i64", -2 ** 63); I("-1", "i64", -1); I("max", "i64", 2 ** 63 - 1); I("big", "i64", rng.randrange(2 ** 40, 2 ** 62))
    for typ, mx, mn, dn in (("f32", 3.4028234663852886e38, 1.1754943508222875e-38, 1e-45),
                            ("f64", 1.7976931348623157e308, 2.2250738585072014e-308, 5e-324)):
        F("0", typ, 0.0); F("-0", typ, -0.0); F("1", typ, 1.0); F("0.1", typ, 0.1); F("max", typ, mx)
        F("lowest", typ, -mx); F("min", typ, mn); F("denorm", typ, dn); F("third", typ, 1.0 / 3.0)
        F("r1", typ, rng.uniform(-1e6, 1e6)); F("r2", typ, rng.random() * 10.0 ** rng.randrange(-30, 30))
    F("1e22", "f64", 1e22); F("pi", "f64", 3.141592653589793); F("big-int", "f64", 2.0 ** 63)
    # values that need the maximal number of significant digits (9 / 17) to be read back exactly:
    # per seed, one from each of 8 binades (tiny .. huge exponents, both signs)
    def needs_all_digits(v, typ):
        if typ == "f32":
            return f32(float("%.7e" % v)) != v          # 8 significant digits are not enough
        return float("%.15e" % v) != v                  # 16 significant digits are not enough

    def bits_step(v, typ, up):
        """the neighbouring value of the type (nextafter)"""
        fmt, ifmt = ("<f", "<I") if typ == "f32" else ("<d", "<Q")
        b = struct.unpack(ifmt, struct.pack(fmt, v))[0]
        b += 1 if (v > 0) == up else -1
        return struct.unpack(fmt, struct.pack(ifmt, b))[0]
    for typ, exps, tag in (("f32", (-120, -30, -3, 0, 6, 20, 57, 120), "d9"),
                           ("f64", (-1000, -300, -30, -3, 0, 20, 300, 1000), "d17")):
        for n, e in enumerate(exps):
            sign = -1.0 if n % 2 else 1.0
            lim = 125 if typ == "f32" else 1020
            tries = 0
            while True:          # only some binades contain such values: look around the target exponent
                tries += 1
                spread = 6 if tries < 20000 else lim
                ee = max(-lim, min(lim, e + rng.randint(-spread, spread)))
                v = sign * (1.0 + rng.random()) * 2.0 ** ee
                if typ == "f32":
                    v = f32(v)
                if needs_all_digits(v, typ):
                    break
            F(tag + "abcdefgh"[n], typ, v)
        one, tenth = 1.0, (f32(0.1) if typ == "f32" else 0.1)
        mx = 3.4028234663852886e38 if typ == "f32" else 1.7976931348623157e308
        mn = 1.1754943508222875e-38 if typ == "f32" else 2.2250738585072014e-308
        F("1+", typ, bits_step(one, typ, True)); F("1-", typ, bits_step(one, typ, False))
        F("0.1+", typ, bits_step(tenth, typ, True)); F("0.1-", typ, bits_step(tenth, typ, False))
        F("max-", typ, bits_step(mx, typ, False)); F("min+", typ, bits_step(mn, typ, True))
        for k in (3, 4, 5, 6):                          # random finite bit patterns
            while True:
                if typ == "f32":
                    v = struct.unpack("<f", struct.pack("<I", rng.getrandbits(32)))[0]
                else:
                    v = struct.unpack("<d", struct.pack("<Q", rng.getrandbits(64)))[0]
                if v == v and abs(v) != float("inf"):
                    break
            F("r%d" % k, typ, v)
    T["#a"] = ("i32", "42", "I42")
    T["true"] = ("bool", "1", "B1")
    T["false"] = ("bool", "0", "B0")
    return T


class Inst:
    """instantiation of the abstract symbols for one behaviour"""
    def __init__(self, rng):
        self.m = dict(FIXED)
        self.m["LO"] = rng.choice(LO_RANGE)
        self.m["HI"] = rng.choice(HI_RANGE)

    def bytes(self, syms):
        return bytes(self.m[s] for s in syms)


def quote(b):
    """the structure string of the harness (mini_json quote) for a byte string"""
    o = '"'
    for c in b:
        if c == 0x22:
            o += '\\"'
        elif c == 0x5c:
            o += "\\\\"
        elif c < 0x20 or c >= 0x7f:
            o += "\\u%04x" % c
        else:
            o += chr(c)
    return o + '"'


def structure(v, inst, nums):
    k = v["k"]
    if k == "null":
        return "null"
    if k == "num":
        return nums[v["s"][0]][2]
    if k == "str":
        return quote(inst.bytes(v["s"]))
    if k == "arr":
        return "[" + "".join(structure(c, inst, nums) + "," for c in v["c"]) + "]"
    if k == "obj":
        return "{" + "".join(quote(inst.bytes(key)) + ":" + structure(c, inst, nums) + "," for key, c in zip(v["ks"], v["c"])) + "}"
    return "~"


def concrete(v, inst, nums):
    """spec value -> the description the harness builds from"""
    k = v["k"]
    if k == "num":
        typ, lit, _ = nums[v["s"][0]]
        if typ == "bool":
            return {"k": "bool", "b": int(lit)}
        return {"k": "num", "t": typ, "lit": lit}
    if k == "str":
        return {"k": "str", "s": latin1(inst.bytes(v["s"]))}
    if k == "arr":
        return {"k": "arr", "c": [concrete(c, inst, nums) for c in v["c"]]} if v["c"] else {"k": "arr"}
    if k == "obj":
        if not v["c"]:
            return {"k": "obj"}
        return {"k": "obj", "ks": [latin1(inst.bytes(x)) for x in v["ks"]], "c": [concrete(c, inst, nums) for c in v["c"]]}
    return {"k": "null"}


def spec_text(toks, inst, numtxt):
    out = b""
    for t in toks:
        if t in numtxt:
            out += numtxt[t]
        elif t in inst.m:
            out += bytes([inst.m[t]])
        elif t in TEXT:
            out += TEXT[t]
        else:
            return None
    return out


def classify_key(bs):
    cls = []
    if b'"' in bs:
        cls.append("quote")
    if b"\\" in bs:
        cls.append("backslash")
    if b"\x00" in bs:
        cls.append("nul")
    if any(c < 0x20 and c != 0 for c in bs):
        cls.append("control")
    return "+".join(cls) or "plain"


def doc_classes(v, inst, acc):
    """which content classes occur in the document (for a specific signature)"""
    if v["k"] == "str":
        acc.add("string:" + classify_key(inst.bytes(v["s"])))
    if v["k"] == "num":
        acc.add("number:" + v["s"][0].lstrip("#").split(":")[0])
    for key in v["ks"]:
        acc.add("key:" + classify_key(inst.bytes(key)))
    for c in v["c"]:
        doc_classes(c, inst, acc)


def parse_S(s):
    """the replayer's structure string -> tree  ('obj',[(key bytes, tree)..]) | ('arr',[..]) | ('str',bytes) | ('leaf',text)"""
    pos = 0

    def string():
        nonlocal pos
        assert s[pos] == '"'
        pos += 1
        out = bytearray()
        while s[pos] != '"':
            if s[pos] == "\\":
                if s[pos + 1] == "u":
                    out.append(int(s[pos + 2:pos + 6], 16))
                    pos += 6
                else:
                    out.append(ord(s[pos + 1]))
                    pos += 2
            else:
                out.append(ord(s[pos]))
                pos += 1
        pos += 1
        return bytes(out)

    def val():
        nonlocal pos
        c = s[pos]
        if c == "{":
            pos += 1
            items = []
            while s[pos] != "}":
                k = string()
                assert s[pos] == ":"
                pos += 1
                items.append((k, val()))
                assert s[pos] == ","
                pos += 1
            pos += 1
            return ("obj", items)
        if c == "[":
            pos += 1
            items = []
            while s[pos] != "]":
                items.append(val())
                assert s[pos] == ","
                pos += 1
            pos += 1
            return ("arr", items)
        if c == '"':
            return ("str", string())
        j = pos
        while pos < len(s) and s[pos] not in ",]}":
            pos += 1
        return ("leaf", s[j:pos])
    return val()


def spec_tree(v, inst, nums):
    k = v["k"]
    if k == "obj":
        return ("obj", [(inst.bytes(key), spec_tree(c, inst, nums)) for key, c in zip(v["ks"], v["c"])])
    if k == "arr":
        return ("arr", [spec_tree(c, inst, nums) for c in v["c"]])
    if k == "str":
        return ("str", inst.bytes(v["s"]))
    if k == "num":
        return ("leaf", nums[v["s"][0]][2], v["s"][0].lstrip("#").split(":")[0])
    return ("leaf", "null")


def first_difference(exp, got):
    """class of the first node where the value read back differs from the spec's document"""
    if exp[0] != got[0]:
        return "kind:%s->%s" % (exp[0], got[0])
    if exp[0] == "obj":
        gk = [k for k, _ in got[1]]
        for k, _ in exp[1]:
            if k not in gk:
                return "key:" + classify_key(k)
        if len(gk) != len(exp[1]):
            return "key:extra"
        gd = dict(got[1])
        for k, c in exp[1]:
            d = first_difference(c, gd[k])
            if d:
                return d
        if gk != [k for k, _ in exp[1]]:
            return "key-order"
        return None
    if exp[0] == "arr":
        if len(exp[1]) != len(got[1]):
            return "array-length"
        for a, b in zip(exp[1], got[1]):
            d = first_difference(a, b)
            if d:
                return d
        return None
    if exp[0] == "str":
        return None if exp[1] == got[1] else "string:" + classify_key(exp[1])
    if exp[1] != got[1]:
        return "number:%s" % exp[2] if len(exp) > 2 else "leaf:%s" % exp[1]
    return None


def suspects(v, inst):
    """for a text that does not parse at all: the content classes that could matter, most specific first"""
    classes = set()
    doc_classes(v, inst, classes)
    for pref in ("key:", "string:"):
        hot = sorted(c for c in classes if c.startswith(pref) and not c.endswith(":plain") and c != pref + "control")
        if hot:
            return ",".join(hot)
    return ",".join(sorted(classes))[:80] or "plain"


def run(ctx):
    rng = random.Random(ctx.seed)
    ph = Phases(ctx)
    thorough = ctx.tier == "thorough"
    if ctx.replay:
        recs = load_replay(ctx.replay)
        behaviours = [r["spec"]["b"] for r in recs]
        cases = [r["case"] for r in recs]
        nums = {k: tuple(v) for k, v in recs[0]["spec"]["nums"].items()}
        insts = []
        for r in recs:
            inst = Inst(rng)
            inst.m = r["spec"]["sym"]
            insts.append(inst)
        rb, per_gen = None, {}
    else:
        # 1. design run + vacuity; the verbatim-key dump must be rejected by the model
        r = ctx.tlc("mc/MC_JsonText.tla", "mc/JsonText_design_big.cfg" if thorough else "mc/JsonText_design.cfg",
                    workers=(8 if thorough else 4), coverage=True, deadlock=False, timeout=3000)
        ctx.tlc_must_pass(r, "JsonText design (EscapeKeys = TRUE)")
        ctx.require_coverage(r, ["SetRoot", "ObjPut", "ArrPush"])
        rb = ctx.tlc("mc/MC_JsonText.tla", "mc/JsonText_base.cfg", workers=1, deadlock=False, expect_violation=True)
        if rb.violated != "RoundTrip":
            raise Broken("JsonText with EscapeKeys=FALSE should violate RoundTrip (model lost its sensitivity): rc=%s violated=%s"
                         % (rb.rc, rb.violated))
        ph.mark("tlc-design")
        # 2. behaviours (the generation runs are small; they run side by side, one worker each)
        if thorough:
            gens = [("A_big", None, None), ("B_big", None, None), ("C", None, None), ("K1", None, None), ("K2", None, None),
                    ("Z", None, None), ("sim", 5000, 9)]
        else:
            gens = [("A1", None, None), ("A2", None, None), ("B", None, None), ("C", None, None), ("Z", None, None), ("sim", 300, 9)]
        jobs = []
        for name, sim, depth in gens:
            jobs.append((name, dict(spec="mc/MC_JsonText.tla", cfg="mc/JsonText_%s.cfg" % ("gen" + name if sim is None else "sim"),
                                    workers=1, simulate=sim,
                                    depth=(depth + 2 if depth else None), deadlock=False, timeout=3000)))
        results = tlc_many(ctx, jobs, par=4)
        behaviours = []
        per_gen = {}
        for name, sim, depth in gens:
            g = results[name]
            if g.rc != 0 and not g.printed:
                raise Broken("generation failed (%s): %s" % (name, g.out[-2000:]))
            bs = b_json_tolerant(g, name)
            if not bs:
                raise Broken("no behaviours generated by %s:\n%s" % (name, g.out[-1500:]))
            per_gen[name] = len(bs)
            behaviours += bs
        seen, uniq = set(), []
        for b in behaviours:
            key = pyjson.dumps([(s["a"], s["p"], s["key"], s["v"]) for s in b], sort_keys=True)
            if key not in seen:
                seen.add(key)
                uniq.append(b)
        behaviours = uniq
        ph.mark("tlc-generate")
        # 3. instantiate and replay
        nums = num_table(rng)
        cases, insts = [], []
        for b in behaviours:
            inst = Inst(rng)
            insts.append(inst)
            steps = []
            for s in b:
                steps.append({"a": s["a"],
                              "p": [({"key": latin1(inst.bytes(e["key"]))} if e["idx"] < 0 else {"idx": e["idx"]}) for e in s["p"]],
                              "key": latin1(inst.bytes(s["key"])), "v": concrete(s["v"], inst, nums)})
            cases.append({"indents": INDENTS, "steps": steps, "final": concrete(b[-1]["doc"], inst, nums)})

    def rec(i):
        return [{"case": cases[i], "spec": {"b": behaviours[i], "sym": insts[i].m, "nums": {k: list(v) for k, v in nums.items()}}}]
    exe, lib = ctx.build_harness("json_replay", ["json_replay.cpp"])
    env = ctx.occa_env(lib)
    env["ASAN_OPTIONS"] += ":quarantine_size_mb=16"
    ph.mark("build")
    outs, crashes, info = run_cases_par(ctx, exe, env, cases, ways=(8 if thorough else 4), tag="j")
    ph.mark("replay")
    for c in crashes:
        b = cases[c["beh"]]
        act = b["steps"][c["step"]]["a"] if 0 <= c["step"] < len(b["steps"]) else "?"
        ctx.mismatch(crash_sig(c, act), "sanitizer/crash at step %s (%s) of %s: %s" %
                     (c["step"], act, b["steps"], "; ".join("%s %s %s" % r for r in c["reports"]) or c["crash"]), rec(c["beh"]))
    for rep in info["soft_reports"]:
        ctx.mismatch("ub:%s@%s:%s" % (rep[0], rep[2] or "?", rep[1].split(":")[0]),
                     "UBSan report while replaying: %s at %s in %s" % rep, None)
    # 4. compare
    # text form of the number tokens as the implementation writes them (root-scalar observations)
    numtxt = {}
    for i, b in enumerate(behaviours):
        o = outs.get(i)
        if o and b[0]["v"]["k"] == "num" and "D" in o["obs"][0]:
            numtxt.setdefault(b[0]["v"]["s"][0], o["obs"][0]["D"][0]["t"].encode("latin-1"))
    steps_checked = dumps_checked = text_agree = text_compared = 0
    for i, b in enumerate(behaviours):
        o = outs.get(i)
        if o is None:
            continue
        inst = insts[i]
        for j, s in enumerate(b):
            steps_checked += 1
            ob = o["obs"][j]
            where = "document %s (history %s)" % (structure(s["doc"], inst, nums), cases[i]["steps"][:j + 1])
            if "err" in ob:
                ctx.mismatch("build:exception:%s" % s["a"], "exception while building: %s; %s" % (ob["err"], where), rec(i))
                break
            want = structure(s["doc"], inst, nums)
            if ob["S"] != want:
                cls = first_difference(spec_tree(s["doc"], inst, nums), parse_S(ob["S"]))
                ctx.mismatch("build:%s:[%s]" % (s["a"], cls), "built document reads %s, spec %s; %s" % (ob["S"], want, where), rec(i))
                break
            for d in ob["D"]:
                dumps_checked += 1
                ind = d["i"]
                if d["det"] != 1:
                    ctx.mismatch("dump:not-deterministic", "two dumps of the same value differ; %s" % where, rec(i))
                if d["p"] != "ok":
                    ctx.mismatch("parse-error:[%s]" % suspects(s["doc"], inst), "json::parse rejects the text dump(%d) produced: %r; %s" %
                                 (ind, d["t"], where), rec(i))
                    continue
                cls = "same-structure"
                if d["PS"] != "=":
                    cls = first_difference(spec_tree(s["doc"], inst, nums), parse_S(d["PS"]))
                    ctx.mismatch("roundtrip:[%s]" % cls, "parse(dump(%d)) reads %s, original %s; text %r" %
                                 (ind, d["PS"], want, d["t"]), rec(i))
                elif d["eq"] != 1:
                    ctx.mismatch("roundtrip-operator==:[%s]" % suspects(s["doc"], inst), "parse(dump(%d)) != original although the structure is the same; %s" %
                                 (ind, where), rec(i))
                if d["PS"] == "=" and d["fix"] != 1:
                    ctx.mismatch("redump-differs:[%s]" % suspects(s["doc"], inst), "dump(parse(text)) differs from text %r; %s" % (d["t"], where), rec(i))
                if d["PS"] == "=" and d["h"] != 1:
                    ctx.mismatch("hash-differs:[%s]" % suspects(s["doc"], inst), "hash(parse(dump)) != hash(original); %s" % where, rec(i))
                if ind in (0, 2):
                    st = spec_text(s["txt%d" % ind], inst, numtxt)
                    if st is not None:
                        text_compared += 1
                        if st == d["t"].encode("latin-1"):
                            text_agree += 1
        else:
            R = o.get("R")
            if R is not None:
                cls = "rebuild"
                if R["S"] != "=":
                    ctx.mismatch("rebuild:structure", "the document rebuilt in reverse order reads %s; %s" % (R["S"], cases[i]["final"]), rec(i))
                elif R["eq"] != 1 or R["t"] != 1 or R["h"] != 1:
                    ctx.mismatch("equal-values-differ:%s" % ("==" if R["eq"] != 1 else "text" if R["t"] != 1 else "hash"),
                                 "a second copy of the same document (reverse insertion order) is not ==/dumps differently/hashes differently: %s; %s"
                                 % (R, cases[i]["final"]), rec(i))
    ph.mark("compare")
    ph.done()
    if text_compared and text_agree != text_compared:
        ctx.notes.append("the spec's Dump text equals the implementation's text in %d of %d compared dumps" % (text_agree, text_compared))
    ctx.traces_validated = len(outs)
    ctx.samples = [cases[0], cases[len(cases) // 3], cases[-1]]
    ctx.cov.update({"behaviours_replayed": len(outs), "steps_checked": steps_checked, "dumps_checked": dumps_checked,
                    "spec_text_compared": text_compared, "spec_text_identical": text_agree,
                    "crashes": len(crashes), "model_base_violates": rb.violated if rb else "(replay)",
                    "behaviours_by_generator": per_gen, "number_tokens": len(nums)})
    ctx.assumptions += [
        "alphabet: TAB NL QUOTE SLASH BSLASH n u + two opaque bytes per behaviour (LO from 0x23..0x2e, HI from 0x76..0xff, seeded) + NUL in generator Z; strings/keys of length <= 2 exhaustively (generator A), longer ones in simulation",
        "numbers: extremes and seeded values of every primitive type, finite only (NaN/Inf have no JSON text); equality of numbers = equal mathematical value (the primitive type may change through the text)",
        "values of type none_ (left behind by a non-const operator[] read) are not JSON values and are not generated",
        "the empty key is not generated (json::parse rejects it by design: 'Key cannot be of size 0')",
        "equal values = the same document built twice (different insertion order / API spelling); cross-type numeric equality (1 vs 1L vs 1.0) is not claimed to dump identically",
        "ASan/UBSan active during replay",
    ]
    if ctx.replay:
        return finish_keeping_evidence(ctx)
    return ctx.finish(exhaustive=False)
