"""Shared helpers of the OKL front-end checks C22 and C16 (harness/okl_replay.cpp).

Python only fans the cases out, collects what the translators did and classifies; the oracle
is the TLA+ specification (spec/lang/OklRules.tla, OklGen.tla, OklMutate.tla).
"""
import json, os, re, subprocess, threading
from concurrent.futures import ThreadPoolExecutor
from vlib import Broken, sh

MODES = ["serial", "openmp", "cuda", "hip", "opencl", "metal", "dpcpp"]
LETTER = dict(zip(MODES, "sochlmd"))


def jobs(ctx):
    d = 8 if ctx.tier == "quick" else 12
    try:
        return max(1, int(os.environ.get("VERIF_JOBS", d)))
    except ValueError:
        return d


def okl_env(ctx, lib, watchdog=20):
    env = ctx.occa_env(lib)
    # a smaller quarantine and no allocation stacks: the parser allocates ~10^5 small objects per
    # translator run and the default 256 MB quarantine makes every run page-fault fresh memory
    # (measured 6x slower); the *access* stack of a report is unaffected
    # symbolize=0: reports carry module+offset only (in-process symbolization of the 250 MB
    # library takes tens of seconds on a loaded machine); crash_site() symbolizes off-line
    env["ASAN_OPTIONS"] += ":quarantine_size_mb=16:malloc_context_size=0:symbolize=0"
    env["UBSAN_OPTIONS"] += ":symbolize=0"
    env["OKL_WATCHDOG"] = str(watchdog)
    return env


def _report(text):
    """the sanitizer report / stack dump in the replayer's output, from its first line on (a
    stack overflow report has hundreds of frames: keep the head, where the error class and the
    innermost frames are)"""
    starts = [m.start() for m in re.finditer(r"^.*(?:ERROR: AddressSanitizer|runtime error:|ERROR: UndefinedBehaviorSanitizer)", text, re.M)]
    if starts:
        text = text[starts[0]:]
    else:
        m = re.search(r"^\s*#0 0x", text, re.M)
        if m:
            text = text[m.start():]
    return text[:6000]


def _run_chunk(ctx, exe, env, cases, tag, timeout):
    """same protocol as vlib.run_replayer (restart after the crashing case), but the replayer's
    stdout/stderr of every run is kept whole so that the HEAD of a report can be used"""
    d = os.path.join(ctx.tmp, "chunk-%s" % tag)
    os.makedirs(d, exist_ok=True)
    inp, outp = os.path.join(d, "in.ndjson"), os.path.join(d, "out.ndjson")
    with open(inp, "w") as f:
        for c in cases:
            f.write(json.dumps(c) + "\n")
    open(outp, "w").close()
    start, crashes = 0, []
    while start < len(cases):
        rc, out = sh([exe, inp, outp, str(start)], timeout=timeout, env=env)
        if rc == 0:
            break
        last, done = None, -1
        for line in open(outp):
            try:
                rec = json.loads(line)
            except ValueError:
                continue
            if "crash" in rec:
                last = rec
            elif "beh" in rec:
                done = max(done, rec["beh"])
        if rc == 127 and "symbol lookup error" in out:
            raise Broken("replayer and library out of sync (library rebuilt during the run?): %s" % out[-300:])
        if last is None or last.get("beh", -1) < start:
            last = {"crash": "exit-%d" % rc, "beh": max(done + 1, start), "step": -1}
            marks = re.findall(r"^@@ (\d+) (\d+)$", out, re.M)
            if marks and int(marks[-1][0]) >= start:
                last["beh"], last["step"] = int(marks[-1][0]), int(marks[-1][1])
        last["log"] = _report(out)
        crashes.append(last)
        start = last["beh"] + 1
        lines = [l for l in open(outp) if '"crash"' not in l]
        open(outp, "w").writelines(lines)
    outs = {}
    for line in open(outp):
        try:
            rec = json.loads(line)
        except ValueError:
            raise Broken("unparseable replayer output: %r" % line[:200])
        if "beh" in rec and "r" in rec:
            outs[rec["beh"]] = rec
    return outs, crashes


_stage = [0]
RERUN_OK = [0]      # time-outs that did not repeat on the re-run


def run_sources(ctx, exe, env, cases, njobs=None, timeout=3000):
    """cases: list of {"src": text[, "modes": letters]}.  Returns (outs, crashes): outs[i] = the
    replayer's record for case i (or None if it crashed there), crashes = list of dicts
    {case, crash, step, mode, log}."""
    njobs = njobs or jobs(ctx)
    n = len(cases)
    if n == 0:
        return [], []
    _stage[0] += 1
    stage = _stage[0]
    per = max(1, min(400, (n + njobs * 4 - 1) // (njobs * 4)))
    chunks = [(s, min(n, s + per)) for s in range(0, n, per)]
    outs = [None] * n
    crashes = []
    lock = threading.Lock()

    def work(ci):
        s, e = chunks[ci]
        o, cr = _run_chunk(ctx, exe, env, cases[s:e], "%d-%d" % (stage, ci), timeout)
        with lock:
            for k, rec in o.items():
                outs[s + k] = rec
            for c in cr:
                step = c.get("step", -1)
                crashes.append({"case": s + c["beh"], "crash": c["crash"], "step": step,
                                "mode": MODES[step] if 0 <= step < 7 else "?", "log": c.get("log", "")})

    with ThreadPoolExecutor(max_workers=njobs) as ex:
        for f in [ex.submit(work, i) for i in range(len(chunks))]:
            f.result()
    crashes.sort(key=lambda c: c["case"])
    # a time-out is reported only if it repeats when the case is run alone with a much longer
    # watchdog (the machine may be heavily loaded); otherwise the re-run's result is used
    kept = []
    slow = [c for c in crashes if c["crash"] in ("TIMEOUT", "SANITIZER-SLOW") or c["crash"].startswith("exit--14")]
    if slow:
        env2 = dict(env)
        env2["OKL_WATCHDOG"] = str(6 * int(env.get("OKL_WATCHDOG", "20")))
        for c in crashes:
            if c not in slow:
                kept.append(c)
                continue
            o, cr = _run_chunk(ctx, exe, env2, [cases[c["case"]]], "%d-rerun-%d" % (stage, c["case"]), timeout)
            if cr:
                c2 = cr[0]
                step = c2.get("step", -1)
                kept.append({"case": c["case"], "crash": c2["crash"], "step": step,
                             "mode": MODES[step] if 0 <= step < 7 else "?", "log": c2.get("log", "")})
            else:
                outs[c["case"]] = o.get(0)
                RERUN_OK[0] += 1
        crashes = kept
    return outs, crashes


_RAW = re.compile(r"^\s*#(\d+) 0x[0-9a-f]+\s+\((\S+?)\+0x([0-9a-f]+)\)", re.M)
_SYM = re.compile(r"^\s*#(\d+) 0x[0-9a-f]+ in (.+?) (?:\.\./)*(\S+?):(\d+)", re.M)
_a2l_cache = {}


def _addr2line(module, offs):
    key = (module, tuple(offs))
    if key not in _a2l_cache:
        try:
            p = subprocess.run(["addr2line", "-f", "-C", "-e", module] + ["0x" + o for o in offs],
                               stdout=subprocess.PIPE, stderr=subprocess.DEVNULL, text=True, timeout=600)
            lines = p.stdout.splitlines()
            _a2l_cache[key] = [(lines[i], lines[i + 1] if i + 1 < len(lines) else "?") for i in range(0, len(lines), 2)]
        except Exception:
            _a2l_cache[key] = []
    return _a2l_cache[key]


def _trim(func):
    func = re.sub(r"\(.*$", "", func)                     # drop the parameter list
    prev = None
    while prev != func:
        prev = func
        func = re.sub(r"<[^<>]*>", "", func)
    return func.strip().replace(" ", "")


def crash_site(log):
    """(kind, top library frame) of a sanitizer report / stack dump in the replayer's output.
    kind: the sanitizer's error class; frame: the first frame of the FIRST stack in the log whose
    function is in namespace occa (symbolized off-line with addr2line when the log is raw)."""
    kind = "unknown"
    m = re.search(r"ERROR: AddressSanitizer: ([A-Za-z0-9_-]+)", log)
    if m:
        kind = "asan-" + m.group(1)
    else:
        m = re.search(r"runtime error: ([^\n]{0,80})", log)
        if m:
            t = re.sub(r"0x[0-9a-f]+|\d+", "#", m.group(1).lower())
            t = re.sub(r"'[^']*'", "", t)
            kind = "ubsan-" + re.sub(r"[^a-z#]+", "-", t).strip("-")[:48]
    for m in _SYM.finditer(log):
        if _trim(m.group(2)).startswith("occa::") and "okl_replay" not in m.group(3):
            return kind, _trim(m.group(2))
    frames = []
    last = -1
    for m in _RAW.finditer(log):
        n = int(m.group(1))
        if n <= last:
            break                                          # a second stack starts
        last = n
        frames.append((m.group(2), m.group(3)))
    lib = [(mod, off) for (mod, off) in frames if "libocca" in mod][:10]
    if lib:
        mod = lib[0][0]
        for func, where in _addr2line(mod, [o for (_, o) in lib]):
            if _trim(func).startswith("occa::"):       # not std::vector<occa::...>::operator[]
                return kind, _trim(func)
    return kind, "?"


def replay_name(sig):
    """file name for the replay artefact of a signature (readable prefix + hash: distinct
    signatures never share a file)"""
    import hashlib
    return "%s-%s.ndjson" % (re.sub(r"[^A-Za-z0-9_.-]+", "_", sig)[:48], hashlib.sha1(sig.encode()).hexdigest()[:8])


def err_class(msg):
    """normalise a translator diagnostic (names, numbers and quoted text removed)"""
    m = re.sub(r"\[[^\]]*\]", "[]", msg or "")
    m = re.sub(r"'[^']*'", "''", m)
    m = re.sub(r"\d+", "#", m)
    m = re.sub(r"[^A-Za-z#\[\]@ ]+", " ", m)
    return "_".join(m.split())[:70]


def report(ctx, sig, what, content):
    ctx.mismatch(sig, what, content, replay_name=replay_name(sig))
