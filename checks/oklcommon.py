"""Shared helpers of the OKL front-end checks C22 and C16 (harness/okl_replay.cpp).

Python only fans the cases out, collects what the translators did and classifies; the oracle
is the TLA+ specification (spec/lang/OklRules.tla, OklGen.tla, OklMutate.tla).
"""
import os, re, subprocess, threading
from concurrent.futures import ThreadPoolExecutor
from vlib import Broken, run_replayer

MODES = ["serial", "openmp", "cuda", "hip", "opencl", "metal", "dpcpp"]
LETTER = dict(zip(MODES, "sochlmd"))


def jobs(ctx):
    d = 4 if ctx.tier == "quick" else 8
    try:
        return max(1, int(os.environ.get("VERIF_JOBS", d)))
    except ValueError:
        return d


def okl_env(ctx, lib, watchdog=20):
    env = ctx.occa_env(lib)
    # a smaller quarantine and no allocation stacks: the parser allocates ~10^5 small objects per
    # translator run and the default 256 MB quarantine makes every run page-fault fresh memory
    # (measured 6x slower); the *access* stack of a report is unaffected
    # symbolize=0: reports carry module+offset only (in-process symbolization of the 250 MB
    # library takes tens of seconds on a loaded machine); crash_site() symbolizes off-line
    env["ASAN_OPTIONS"] += ":quarantine_size_mb=16:malloc_context_size=0:symbolize=0"
    env["UBSAN_OPTIONS"] += ":symbolize=0"
    env["OKL_WATCHDOG"] = str(watchdog)
    return env


class _Sub:
    """what run_replayer needs from a ctx, with a private tmp dir per chunk"""
    def __init__(self, ctx, n):
        self.tmp = os.path.join(ctx.tmp, "chunk-%d" % n)
        os.makedirs(self.tmp, exist_ok=True)


def run_sources(ctx, exe, env, cases, njobs=None, timeout=3000):
    """cases: list of {"src": text[, "modes": letters]}.  Returns (outs, crashes): outs[i] = the
    replayer's record for case i (or None if it crashed there), crashes = list of dicts
    {case, crash, step, mode, log}."""
    njobs = njobs or jobs(ctx)
    n = len(cases)
    if n == 0:
        return [], []
    per = max(1, min(400, (n + njobs * 4 - 1) // (njobs * 4)))
    chunks = [(s, min(n, s + per)) for s in range(0, n, per)]
    outs = [None] * n
    crashes = []
    lock = threading.Lock()

    def work(ci):
        s, e = chunks[ci]
        sub = _Sub(ctx, ci)
        o, cr = run_replayer(sub, exe, env, cases[s:e], timeout=timeout, max_restarts=e - s + 2)
        with lock:
            for k, rec in o.items():
                outs[s + k] = rec
            for c in cr:
                step = c.get("step", -1)
                crashes.append({"case": s + c["beh"], "crash": c["crash"], "step": step,
                                "mode": MODES[step] if 0 <= step < 7 else "?", "log": c.get("log", "")})

    with ThreadPoolExecutor(max_workers=njobs) as ex:
        for f in [ex.submit(work, i) for i in range(len(chunks))]:
            f.result()
    crashes.sort(key=lambda c: c["case"])
    return outs, crashes


_RAW = re.compile(r"^\s*#(\d+) 0x[0-9a-f]+\s+\((\S+?)\+0x([0-9a-f]+)\)", re.M)
_SYM = re.compile(r"^\s*#(\d+) 0x[0-9a-f]+ in (.+?) (?:\.\./)*(\S+?):(\d+)", re.M)
_a2l_cache = {}


def _addr2line(module, offs):
    key = (module, tuple(offs))
    if key not in _a2l_cache:
        try:
            p = subprocess.run(["addr2line", "-f", "-C", "-e", module] + ["0x" + o for o in offs],
                               stdout=subprocess.PIPE, stderr=subprocess.DEVNULL, text=True, timeout=600)
            lines = p.stdout.splitlines()
            _a2l_cache[key] = [(lines[i], lines[i + 1] if i + 1 < len(lines) else "?") for i in range(0, len(lines), 2)]
        except Exception:
            _a2l_cache[key] = []
    return _a2l_cache[key]


def _trim(func):
    func = re.sub(r"\(.*$", "", func)                     # drop the parameter list
    prev = None
    while prev != func:
        prev = func
        func = re.sub(r"<[^<>]*>", "", func)
    return func.strip().replace(" ", "")


def crash_site(log):
    """(kind, top library frame) of a sanitizer report / stack dump in the replayer's output.
    kind: the sanitizer's error class; frame: the first frame of the FIRST stack in the log whose
    function is in namespace occa (symbolized off-line with addr2line when the log is raw)."""
    kind = "unknown"
    m = re.search(r"ERROR: AddressSanitizer: ([A-Za-z0-9_-]+)", log)
    if m:
        kind = "asan-" + m.group(1)
    else:
        m = re.search(r"runtime error: ([^\n]{0,80})", log)
        if m:
            t = re.sub(r"0x[0-9a-f]+|\d+", "#", m.group(1).lower())
            t = re.sub(r"'[^']*'", "", t)
            kind = "ubsan-" + re.sub(r"[^a-z#]+", "-", t).strip("-")[:48]
    for m in _SYM.finditer(log):
        if "occa::" in m.group(2) and "okl_replay" not in m.group(3):
            return kind, _trim(m.group(2))
    frames = []
    last = -1
    for m in _RAW.finditer(log):
        n = int(m.group(1))
        if n <= last:
            break                                          # a second stack starts
        last = n
        frames.append((m.group(2), m.group(3)))
    lib = [(mod, off) for (mod, off) in frames if "libocca" in mod][:10]
    if lib:
        mod = lib[0][0]
        for func, where in _addr2line(mod, [o for (_, o) in lib]):
            if "occa::" in func:
                return kind, _trim(func)
    return kind, "?"


def err_class(msg):
    """normalise a translator diagnostic (names, numbers and quoted text removed)"""
    m = re.sub(r"\[[^\]]*\]", "[]", msg or "")
    m = re.sub(r"'[^']*'", "''", m)
    m = re.sub(r"\d+", "#", m)
    m = re.sub(r"[^A-Za-z#\[\]@ ]+", " ", m)
    return "_".join(m.split())[:70]
