"""C10 -- kernel argument validation accepts exactly the compatible lists; same decision fresh and cached.
Spec types/KernelArgs.tla (+ DtypeOps.tla, mc/MC_KernelArgs.tla); cfgs mc/KernelArgs_{quick,full,base}.cfg;
replayer harness/kernelargs_replay.cpp (real JIT compilation, Serial mode, one @kernel per source).
"""
import json, os, re, time
from concurrent.futures import ThreadPoolExecutor
from vlib import Broken, b_json, run_replayer

WORKERS = int(os.environ.get("VERIF_WORKERS", "8"))
FANOUT = int(os.environ.get("VERIF_FANOUT", "4"))
# OKL spelling of the spec's parameter ids (format conversion)
PARAM_DECL = {"float*": "float *%s", "const int*": "const int *%s", "S2*": "S2 *%s", "T2*": "T2 *%s", "int": "int %s",
              "const double": "const double %s", "double*": "double *%s", "char*": "char *%s",
              "long*": "long *%s", "real_t*": "real_t *%s", "float[4]": "float %s[4]", "float": "float %s"}


ARRAY_ID = re.compile(r"^(const )?(td:)?([a-z ]+)(?:\[(\d+)\]|(\*))$")


def param_decl(pid, name):
    """OKL declaration of parameter id `pid` named `name`; returns (declaration, typedef lines)"""
    if pid in PARAM_DECL:
        return PARAM_DECL[pid] % name, []
    m = ARRAY_ID.match(pid)
    if not m:
        raise Broken("no OKL spelling for parameter id %r" % pid)
    const, td, base, n = m.group(1) or "", m.group(2), m.group(3), m.group(4)
    tname = ("td_%s" % name) if td else base
    decl = "%s%s %s[%s]" % (const, tname, name, n) if n else "%s%s *%s" % (const, tname, name)
    return decl, (["typedef %s td_%s;" % (base, name)] if td else [])


def okl_source(name, sig):
    decls, typedefs = [], []
    for i, p in enumerate(sig):
        d, t = param_decl(p, "p%d" % i)
        decls.append(d)
        typedefs += t
    return ("struct S2 { float x; float y; };\ntypedef struct { float x, y; } T2;\ntypedef float real_t;\n%s@kernel void %s(%s) {\n"
            "  for (int o = 0; o < 1; ++o; @outer) {\n    for (int i = 0; i < 1; ++i; @inner) {\n    }\n  }\n}\n"
            % ("".join(t + "\n" for t in typedefs), name, ", ".join(decls)))


def replay_chunks(ctx, exe, env, cases, chunks, tag):
    """chunk k always uses cache directory k (the cached pass must find what the fresh pass built)"""
    parts = [(k, [c for i, c in enumerate(cases) if i % chunks == k]) for k in range(chunks)]

    def one(arg):
        k, part = arg
        if not part:
            return {}, []
        time.sleep(0.07 * k)
        e = dict(env)
        e["OCCA_CACHE_DIR"] = env["OCCA_CACHE_DIR"] + "-c%d" % k
        os.makedirs(e["OCCA_CACHE_DIR"], exist_ok=True)
        outs, crashes = run_replayer(ctx, exe, e, part, timeout=3000, max_restarts=20)
        idx = [i for i in range(len(cases)) if i % chunks == k]
        return ({idx[i]: o for i, o in outs.items()}, [dict(c, beh=idx[c["beh"]]) for c in crashes])

    outs, crashes = {}, []
    with ThreadPoolExecutor(max_workers=chunks) as ex:
        for o, c in ex.map(one, parts):
            outs.update(o)
            crashes += c
    return outs, crashes


def finish_replay(ctx):
    """--replay: report what was reproduced; the evidence file is not touched"""
    import shutil
    for (sig, what, path) in ctx.mismatches:
        print("VIOLATION property=%s replay=%s sig=%s :: %s" % (ctx.pid, ctx.replay, sig, " | ".join(what.splitlines())[:900]))
    if not ctx.mismatches:
        print("REPLAY-OK property=%s replay=%s: the implementation now conforms on this artefact" % (ctx.pid, ctx.replay))
    shutil.rmtree(ctx.tmp, ignore_errors=True)
    return 1 if ctx.mismatches else 0


def compare_sig(ctx, t, case, f, c):
    """one signature: decisions of the fresh and of the cached pass against the spec's table"""
    if f is None or c is None:
        return 0
    for how, o, want in (("fresh", f, "compiled"), ("cached", c, "cached")):
        if "err" in o:
            ctx.mismatch("build:%s" % how, "kernel %s could not be built (%s): %s" % (t["s"], how, o["err"]), [dict(case, spec=t)])
        elif o["built"] != want:
            raise Broken("pass %s of signature %s was %s (expected %s): the fresh/cached set-up is wrong" % (how, t["s"], o["built"], want))
    if "err" in f or "err" in c:
        return 0
    n, decisions = len(t["s"]), 0
    for j, row in enumerate(t["rows"]):
        rf, rc_ = f["res"][j], c["res"][j]
        shape = "%d-params:%s" % (n, "count" if len(row["args"]) != n else "kinds")
        art = [dict(case, lists=[row["args"]], spec={"s": t["s"], "rows": [row]})]
        for how, got in (("fresh", rf), ("cached", rc_)):
            decisions += 1
            if row["exp"] != "any" and got.split(":")[0] != row["exp"]:
                ctx.mismatch("decision:%s:%s:wrongly-%s" % (how, shape, "accepted" if got == "runs" else "refused"),
                             "kernel(%s) launched %s with (%s): %s, spec %s" % (", ".join(t["s"]), how, ", ".join(row["args"]), got, row["exp"]), art)
        if rf.split(":")[0] != rc_.split(":")[0]:
            ctx.mismatch("fresh-vs-cached:%s" % shape,
                         "kernel(%s) with (%s): fresh %s, cached %s" % (", ".join(t["s"]), ", ".join(row["args"]), rf, rc_), art)
    return decisions


def replay(ctx):
    recs = [json.loads(l) for l in open(ctx.replay) if l.strip()]
    if not all("spec" in r for r in recs):
        raise Broken("the artefact carries no predictions (written by an older version of the check)")
    exe, lib = ctx.build_harness("kernelargs_replay", ["kernelargs_replay.cpp"], variant="fast")
    env = ctx.occa_env(lib)
    env["OCCA_CXXFLAGS"] = "-O0"
    cases = [{k: v for k, v in r.items() if k != "spec"} for r in recs]
    passes = {}
    for how in ("fresh", "cached"):
        passes[how], crashes = replay_chunks(ctx, exe, env, cases, 1, how)
        for c in crashes:
            ctx.mismatch("crash:%s:%s" % (how, c["crash"]), "replayer crashed (%s): %s" % (how, c.get("log", "")[-1200:]))
    for i, r in enumerate(recs):
        compare_sig(ctx, r["spec"], cases[i], passes["fresh"].get(i), passes["cached"].get(i))
    return finish_replay(ctx)


def run(ctx):
    if ctx.replay:
        return replay(ctx)
    t0 = time.time()
    # 1. model: intended decision = transcribed decision, fresh = cached, oracle sanity; one table per signature
    cfg = "mc/KernelArgs_full.cfg" if ctx.tier == "thorough" else "mc/KernelArgs_quick.cfg"
    r = ctx.tlc("mc/MC_KernelArgs.tla", cfg, workers=min(WORKERS, 4), coverage=True, deadlock=False, timeout=3000)
    ctx.tlc_must_pass(r, "KernelArgs model + tables")
    ctx.require_coverage(r, ["Compile", "RunAll", "Reload"])
    tables = sorted(b_json(r), key=lambda t: json.dumps(t["s"]))
    if not tables:
        raise Broken("no signature tables generated")
    # the transcription of the code before the repair must violate the property (keeps the model honest)
    rb = ctx.tlc("mc/MC_KernelArgs.tla", "mc/KernelArgs_base.cfg", workers=2, deadlock=False, timeout=1200, count=False, expect_violation=True)
    if rb.violated not in ("FreshEqualsCached", "AcceptsExactlyCompatible"):
        raise Broken("the pre-repair transcription (InitWhenEmpty = FALSE) no longer violates the property: %s" % rb.out[-800:])
    t1 = time.time()
    cases = []
    for i, t in enumerate(tables):
        name = "k%d" % i
        cases.append({"name": name, "source": okl_source(name, t["s"]), "lists": [row["args"] for row in t["rows"]]})
    exe, lib = ctx.build_harness("kernelargs_replay", ["kernelargs_replay.cpp"], variant="fast")
    env = ctx.occa_env(lib)
    env["OCCA_CXXFLAGS"] = "-O0"
    passes = {}
    for how in ("fresh", "cached"):
        outs, crashes = replay_chunks(ctx, exe, env, cases, FANOUT, how)
        for c in crashes:
            ctx.mismatch("crash:%s:%s" % (how, c["crash"]), "replayer crashed (%s) on signature %s list %s: %s" %
                         (how, tables[c["beh"]]["s"], c["step"], c.get("log", "")[-1200:]), [cases[c["beh"]]])
        passes[how] = outs
    t2 = time.time()
    decisions = 0
    for i, t in enumerate(tables):
        decisions += compare_sig(ctx, t, cases[i], passes["fresh"].get(i), passes["cached"].get(i))
    ctx.notes.append("phase wall seconds: TLC %.0f, build+replay (2 passes) %.0f, compare %.0f" % (t1 - t0, t2 - t1, time.time() - t2))
    ctx.traces_validated = len(passes["fresh"]) + len(passes["cached"])
    ctx.samples = [{"sig": tables[0]["s"], "rows": tables[0]["rows"][:3]},
                   {"sig": tables[len(tables) // 2]["s"], "rows": tables[len(tables) // 2]["rows"][:3]}]
    narr = sum(1 for t in tables if len(t["s"]) == 1 and ARRAY_ID.match(t["s"][0]) and t["s"][0] not in PARAM_DECL)
    ctx.cov.update({"signatures": len(tables), "fixed_array_signatures": narr,
                    "lists_per_signature": max(len(t["rows"]) for t in tables), "lists_per_fixed_array_signature": min(len(t["rows"]) for t in tables), "decisions_checked": decisions,
                    "kernels_compiled": len(passes["fresh"]), "kernels_loaded_from_cache": len(passes["cached"])})
    ctx.assumptions += [
        "Serial mode, g++ -O0; one @kernel per OKL source so that every kernel is really compiled once (fresh) and really loaded from build.json in a second process (cached)",
        "signatures of <= 2 parameters; parameter types float*, const int*, struct S2*, int, const double (thorough: + double*, typedef'd struct*, char*, long*, typedef'd float*, float[4], float); vector types are not declared in Serial kernel sources and occur as memory element types only; argument lists of <= 3 over byte/float/int/struct{float,float} memories, an int scalar, occa::null (thorough: + double, float2, char, custom memories, float and double scalars)",
        "fixed-array parameters [const] [typedef'd] T a[n] for T in char, short, int, long, long long and their unsigned forms, float, double, n in {1,2,4} (144 one-parameter signatures, quick and thorough), each tried with the empty list, a too long list and every single argument out of byte/char/short/int/long/float/double/int2/int4/long2/long4/float2/float4/double2/short2/char4 memories, a scalar and null; the element dtype of a parameter is derived in the spec from the declared spelling (occa::dtype::get<T>), not from the parser; vector-typed arrays do not compile in Serial sources",
        "scalar arguments are not type-checked by the statement: any scalar fits any value parameter",
        "occa::null is not classified by the statement: lists containing it must only get the same decision fresh and cached",
        "kernel bodies are empty loops, so a wrongly accepted list cannot corrupt memory"]
    return ctx.finish(exhaustive=True)
