"""C20 -- translated kernels compute what the OKL kernel means, on every backend.
Spec lang/OklKernel.tla (IR, SeqRun = the sequential reading, LaunchRun = the launch model, the generator);
MC mc/MC_OklKernel.tla + mc/OklKernel_*.cfg; replayer harness/kern_replay.cpp (+ harness/emu);
rendering and pipeline checks/kerncommon.py.
"""
import os, re, sys, json, time, collections
from vlib import Broken
import kerncommon as kc
from kerncommon import MODES, LAUNCHER_MODES

MUTANT_CFGS = [("mc/OklKernel_mut_nobarrier.cfg", "no barrier between @inner nests"),
               ("mc/OklKernel_mut_atomicsplit.cfg", "@atomic dropped"),
               ("mc/OklKernel_mut_rule_raw.cfg", "generator rule: sh[other] read needs a barrier after the writes"),
               ("mc/OklKernel_mut_rule_war.cfg", "generator rule: sh rewritten only after a barrier behind its readers"),
               ("mc/OklKernel_mut_rule_ex.cfg", "generator rule: ex read only after it was assigned")]


def design(ctx, thorough):
    """LaunchRun = SeqRun under all interleavings for the bounded IR space, and the model mutants"""
    if os.environ.get("C20_DEV_SKIP_DESIGN"):       # development aid only
        return
    cfg = "mc/OklKernel_design.cfg" if thorough else "mc/OklKernel_design_quick.cfg"
    r = ctx.tlc("mc/MC_OklKernel.tla", cfg, workers=4, coverage=True, deadlock=False, timeout=3000)
    ctx.tlc_must_pass(r, "OklKernel design (%s)" % cfg)
    ctx.cov["design_actions_taken"] = kc.require_cov(r, [("DoBegin", "BeginNest"), ("DoAdd", "AddStmt"), ("DoNextPhase", "NextPhase"), ("Finish",),
                                                          ("DoLaunch", "Launch"), ("DoStmt", "StepStmt"), ("DoPhase", "StepPhase"), ("NextLaunch",)])
    ctx.cov["design_states"] = r.distinct
    caught = 0
    for cfg, what in (MUTANT_CFGS if thorough else MUTANT_CFGS[1:3]):
        # random interleavings find the counterexample much faster than breadth-first search
        m = ctx.tlc("mc/MC_OklKernel.tla", cfg, workers=2, simulate=6000, depth=120, deadlock=False, timeout=1500, count=False,
                    expect_violation=True)
        if m.violated not in ("LaunchIsSeq", "NoBadAccess"):
            raise Broken("model mutant `%s` (%s) is not rejected by the design check: rc=%s violated=%s\n%s"
                         % (what, cfg, m.rc, m.violated, m.out[-1500:]))
        caught += 1
    ctx.cov["model_mutants_rejected"] = caught


def sig_features(g, extra=()):
    f = kc.features(g["k"]) - {"pointer-arg", "scalar-arg"}
    core = [x for x in ("header-stride", "loop-header", "empty-range", "atomic-block", "atomic-alias", "atomic", "shared-across-barrier", "shared", "exclusive", "tile", "dim", "nobarrier", "runtime-bounds",
                        "max_inner_dims", "simd_length", "explicit-barrier", "restrict", "helper-function", "for", "if",
                        "local-decl", "nested-inner", "nested-outer", "sibling-inner", "sibling-outer", "between-decl") if x in f]
    return ",".join(list(extra) + core[:4])


def where_of(m):
    return m


def compare(ctx, batches, res, runs, modes, stats, label, want_same=False):
    """spec prediction vs. what every backend left in the arrays"""
    for bi, b in enumerate(batches):
        for m in modes:
            r = res[(bi, m)]
            if not r.translated:
                continue
            rr = runs.get((bi, m))
            if rr is None:
                continue
            if "err" in rr:
                kind = "sanitizer" if ("Sanitizer" in rr["err"] or "SANITIZER" in rr["err"] or "runtime error" in rr["err"]) else "crash"
                ctx.mismatch("%s:%s:%s" % (kind, label, m), "running batch %s on %s (%s): %s" % (b.name, m, label, rr["err"][:1500]),
                             [{"okl": b.text, "mode": m, "pass": label, "err": rr["err"],
                               "device": kc.read_text(r.device_src) or None}])
                stats["crash"] += 1
                continue
            for ki, g in enumerate(b.items):
                for vi, want in enumerate(g["runs"]):
                    o = rr["runs"][ki][vi]
                    stats["runs"] += 1
                    bad_launch = [l for l in o["launches"] if l["code"] != 0]
                    kind = None
                    if o["err"]:
                        kind = "error"
                    elif bad_launch:
                        kind = "launch-rejected"
                    elif any(l.get("divergent") for l in o["launches"]):
                        kind = "divergent-barrier"
                    else:
                        got_in, got_out, got_acc = o["out"]
                        if got_in != kc_argvecs[vi]["in"]:
                            kind = "input-written"
                        elif got_out != want["out"]:
                            kind = "wrong-out"
                        elif got_acc != want["acc"]:
                            kind = "wrong-acc"
                        elif not o.get("same", True):
                            kind = "nondeterministic"
                    if kind is None:
                        stats["conform"] += 1
                        continue
                    stats["mismatch"] += 1
                    sig = "%s:%s:%s:%s" % (kind, m, label, sig_features(g))
                    what = ("%s on %s (%s pass), class %s, argument vector %d: spec out=%s acc=%s, translation %s%s%s\n%s" %
                            (kind, m, label, g["cls"], vi + 1, want["out"], want["acc"], o["out"][1:] if o["out"] else o["out"],
                             (", launch: " + bad_launch[0]["msg"]) if bad_launch else "",
                             (", error: " + o["err"][:300]) if o["err"] else "", g["okl"]))
                    ctx.mismatch(sig, what, [{"kernel": g["k"], "okl": g["okl"], "cls": g["cls"], "mode": m, "pass": label,
                                              "args": kc_argvecs[vi], "spec": want, "observed": o,
                                              "device": kc.read_text(r.device_src) or None,
                                              "launcher": kc.read_text(r.launcher_src) or None}])


kc_argvecs = None


def run(ctx):
    global kc_argvecs
    ctx.level = "translation_validation"
    thorough = ctx.tier == "thorough"
    t0 = time.time()
    # 1. the scheme itself (design run, vacuity, model mutants)
    design(ctx, thorough)
    kc.lap(ctx, t0, "design")
    # 2. kernels + argument values + predicted outputs from the spec's generator
    num = int(os.environ.get("C20_NUM", 600 if thorough else 100))
    gen = kc.generate(ctx, "mc/OklKernel_gen.cfg", num)
    # general @atomic blocks are rejected by cuda/hip ("Unable to transform general @atomic code"), taken apart by dpcpp
    # and dropped by opencl/metal: class atomblock is run by C21 (Serial/OpenMP) only
    gen = [g for g in gen if g["cls"] != "atomblock"]
    # ... and the header class, enumerated completely: every (comparison x update form) on both loop levels
    gen += kc.generate_all(ctx, "mc/OklKernel_gen_headers.cfg" if thorough else "mc/OklKernel_gen_headers_quick.cfg")
    kc.lap(ctx, t0, "generated %d kernels" % len(gen))
    kc_argvecs = kc.spec_argvecs()
    if any(len(g["runs"]) != len(kc_argvecs) for g in gen):
        raise Broken("argument vectors of the spec and of the renderer differ")
    batches = kc.make_batches(gen, kc_argvecs, per_batch=(60 if thorough else 50), prefix="c20b")
    fan = 8 if thorough else 4
    # 3. translate with all seven translators (in-process)
    res = kc.translate(ctx, batches, MODES, fanout=fan)
    kc.lap(ctx, t0, "translated")
    stats = collections.Counter()
    for bi, b in enumerate(batches):
        for m in MODES:
            r = res[(bi, m)]
            if not r.translated:
                # find the kernel(s) of the batch the translator rejects: one more pass per kernel is not
                # worth it; report the batch with the diagnostic
                ctx.mismatch("translate-fail:%s" % m, "mode %s failed to translate a batch of valid kernels: %s" % (m, (r.terr or "")[:800]),
                             [{"okl": b.text, "mode": m, "err": r.terr}])
                stats["translate_fail"] += 1
    # 4. emulated modules of the launcher backends (real launcher + device source behind the shims)
    exe_fast, lib_fast = kc.harness(ctx, "fast")
    mods = kc.build_modules(ctx, batches, res, lib_fast, LAUNCHER_MODES, workers=fan)
    for key, r in res.items():
        if r.module_err:
            ctx.mismatch("device-source-does-not-compile:%s" % key[1],
                         "the translated %s source of batch %s does not compile behind the backend shim:\n%s" %
                         (key[1], batches[key[0]].name, r.module_err[-2500:]),
                         [{"okl": batches[key[0]].text, "mode": key[1], "err": r.module_err, "device": kc.read_text(r.device_src)}])
            stats["module_fail"] += 1
    kc.lap(ctx, t0, "emulated modules built")
    # 5. run: Serial/OpenMP through the real JIT, the launcher backends through the emulation layer
    runs = kc.run(ctx, batches, res, MODES, variant="fast", mods=mods, fanout=fan, cache_name="cache-fast", timeout=5400)
    kc.lap(ctx, t0, "ran (plain)")
    compare(ctx, batches, res, runs, MODES, stats, "plain")
    # 6. the same kernels with the translated source compiled with -fsanitize=address (out-of-array accesses of the
    #    translation): Serial/OpenMP through the JIT of the sanitized library, launcher backends as sanitized modules
    asan_modes = MODES if thorough else ["serial", "openmp", "cuda", "opencl", "dpcpp"]
    if not os.environ.get("C20_DEV_SKIP_ASAN"):
        exe_asan, lib_asan = kc.harness(ctx, "asan")
        amods = kc.build_modules(ctx, batches, res, lib_asan, [m for m in asan_modes if m in LAUNCHER_MODES], tag=".asan",
                                 flags=["-O0", "-g1", "-fsanitize=address", "-fno-omit-frame-pointer"], workers=fan)
        aruns = kc.run(ctx, batches, res, asan_modes, variant="asan", mods=amods, fanout=fan, cache_name="cache-asan", timeout=9000,
                       props={"compiler_flags": "-O0 -g1 -fsanitize=address -fno-omit-frame-pointer"},
                       env_extra={"OCCA_CXXFLAGS": "-O0 -g1 -fsanitize=address -fno-omit-frame-pointer",
                                  "OCCA_LDFLAGS": "-fsanitize=address"})
        kc.lap(ctx, t0, "ran (asan)")
        astats = collections.Counter()
        compare(ctx, batches, res, aruns, asan_modes, astats, "asan")
        stats["asan_runs"] = astats["runs"]
        stats["mismatch"] += astats["mismatch"]
        stats["crash"] += astats["crash"]
    # 7. race pass: the @atomic kernels again with the work-items of a group as concurrent threads and
    #    ThreadSanitizer on the translated device source (an update that is not atomic is a data race)
    if not os.environ.get("C20_DEV_SKIP_RACE"):
        reports, nruns, fails = kc.race_pass(ctx, gen, kc_argvecs, LAUNCHER_MODES if thorough else ["cuda", "opencl", "metal", "dpcpp"],
                                             limit=(160 if thorough else 30), fanout=fan)
        kc.lap(ctx, t0, "race pass")
        for m, err in fails:
            raise Broken("race pass could not run on %s: %s" % (m, (err or "")[-2000:]))
        stats["race_runs"] = nruns
        stats["race_reports"] = len(reports)
        for rp in reports:
            g = rp["g"]
            # the racing statement updates acc, directly or through one of the rendered aliases (p, r, row)
            what = "acc-update" if re.search(r"acc\[|\brow\[|\*p\b|\(\*p\)|\br\s*(\+=|-=|\+\+)|(\+\+|--)\s*r\b", rp["line"]) else "other"
            ctx.mismatch("data-race:%s:%s" % (rp["mode"], what),
                         "ThreadSanitizer: work-items of one group race in the translated %s kernel at `%s` (work-items run concurrently):\n%s\n%s"
                         % (rp["mode"], rp["line"], rp["report"][:1500], g["okl"] if g else ""),
                         [{"mode": rp["mode"], "kernel": g["k"] if g else None, "okl": g["okl"] if g else None, "line": rp["line"],
                           "report": rp["report"], "device": rp.get("device")}])
    # 8. evidence
    feats = collections.Counter()
    for g in gen:
        for f in kc.features(g["k"]):
            feats[f] += 1
    bycls = collections.Counter(g["cls"] for g in gen)
    ctx.cov.update({"programs": len(gen), "disagreements_checked": stats["runs"] + stats["asan_runs"] + stats["race_runs"],
                    "race_pass_runs": stats["race_runs"], "race_reports": stats["race_reports"],
                    "backends": len(MODES), "argument_vectors": len(kc_argvecs),
                    "backend_runs_plain": stats["runs"], "backend_runs_asan": stats["asan_runs"],
                    "conforming_plain": stats["conform"], "mismatching_runs": stats["mismatch"], "crashed_batches": stats["crash"],
                    "translate_failures": stats["translate_fail"], "module_build_failures": stats["module_fail"],
                    "kernels_by_class": dict(bycls), "kernels_by_feature": dict(feats), "batches": len(batches)})
    pick = [gen[0], gen[len(gen) // 3], gen[(2 * len(gen)) // 3], gen[-1]]
    ctx.samples = [{"class": g["cls"], "okl": g["okl"], "args": kc_argvecs[0], "spec_out": g["runs"][0]["out"], "spec_acc": g["runs"][0]["acc"]}
                   for g in pick]
    ctx.assumptions += [
        "kernels come from the generator of spec/lang/OklKernel.tla (independent iterations by construction, model-checked); "
        "extents <= 4 per loop, <= 12 iterations per nest, arrays of 12/12/3 ints, three argument vectors",
        "launcher backends (cuda, hip, opencl, metal, dpcpp) run under harness/emu: real generated launcher and device source, "
        "work-groups one after another, work-items of a group as real threads with a real barrier, deterministic baton schedule; no GPU",
        "memory safety of the translated code is monitored with -fsanitize=address on exactly these runs, not proved",
        "loop headers: < <= > >= with the iterator on either side, ++ -- += s -= s (s <= 3), initial values -2..3, literal or "
        "run-time bounds, ranges that are not multiples of the stride, empty @outer ranges; only headers whose direction agrees; "
        "@tile with step 1 and a literal tile size; @dim with plain iterator arguments"]
    return ctx.finish(exhaustive=False)
