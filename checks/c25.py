"""C25 -- JSON path access and merging = nested-dictionary semantics.
Spec types/OJson.tla (the nested dictionary: SetP / RemP / MergeV / Lookup / HasP as recursive
operators; theorems WriteThenRead, RemoveThenRead, MergeRightWins, HasIffDefined checked by TLC);
MC: mc/OJson_design*.cfg, mc/OJson_shallow.cfg (a non-recursive merge must be rejected);
generation mc/OJson_gen*.cfg, OJson_sim.cfg; replayer harness/ojson_replay.cpp;
trace validation: spec/trace/OJsonTrace.tla on the log of harness/ojson_driver.cpp.

R: every step of every TLC-generated history is executed on one occa::json document; after
each step the whole document and every read (const operator[], has, get<json>/get<int>/
get<string> with default, getPathValue, size) of every path are compared with the spec, and
the document is read again after the reads (reads create nothing).
T: a seeded random driver logs 1 event per call (arguments, outcome, document, reads of the
path it touched); OJsonTrace replays the log against the same operators.
"""
import json as pyjson
import os, random
from vlib import Broken, b_json, sh, VERIF
from a1util import b_json_tolerant, run_cases_par, crash_sig, Phases, tlc_many, load_replay, finish_keeping_evidence


def q(s):
    o = '"'
    for ch in s:
        c = ord(ch)
        if c == 0x22:
            o += '\\"'
        elif c == 0x5c:
            o += "\\\\"
        elif c < 0x20 or c >= 0x7f:
            o += "\\u%04x" % c
        else:
            o += ch
    return o + '"'


def S(v):
    """the replayer's structure string for a spec value (full record, or compact read)"""
    if isinstance(v, str):
        if v == "~" or v == "null":
            return v
        return "I" + v if v.lstrip("-").isdigit() else q(v)
    k = v["k"]
    if k == "none":
        return "~"
    if k == "null":
        return "null"
    if k == "num":
        return "I" + v["s"][0]
    if k == "str":
        return q(v["s"][0])
    return "{" + "".join(q(key) + ":" + S(c) + "," for key, c in zip(v["ks"], v["c"])) + "}"


def kind(enc):
    if isinstance(enc, dict):
        return enc["k"]
    if enc == "~":
        return "none"
    if enc == "null":
        return "null"
    return "num" if enc.lstrip("-").isdigit() else "str"


def path_list(max_len, keys=("a", "b")):
    seqs, level = [], [[k] for k in keys]
    for n in range(max_len):
        seqs += level
        level = [p + [k] for p in level for k in keys]
    return seqs


def compare(ctx, behaviours, cases, outs, rec):
    steps_checked = reads_checked = 0
    for i, b in enumerate(behaviours):
        o = outs.get(i)
        if o is None:
            continue
        paths = cases[i]["paths"]
        prev_rd = None
        for j, s in enumerate(b):
            steps_checked += 1
            ob = o["obs"][j]
            a = s["a"]
            hist_txt = [(t["a"], "/".join(t["p"]), t["key"], S(t["v"])) for t in b[:j + 1]]
            # what the operation was applied to (from the reads the spec predicted before the step)
            tk = ""
            if a in ("set", "merge"):
                if not s["p"]:
                    tk = ":target-root"
                elif prev_rd is not None and s["p"] in paths:
                    tk = ":target-" + kind(prev_rd[paths.index(s["p"])]["v"])
            if a == "setPath":
                tk += ":value-" + s["v"]["k"]
            if a == "set" and "/" in s["key"]:
                tk += ":key-with-slash"
            if a == "merge" and any("/" in k for k in s["v"]["ks"]):
                tk += ":rhs-key-with-slash"
            want_err = 0 if s["ok"] else 1
            if ob["err"] != want_err:
                ctx.mismatch("outcome:%s%s:%s" % (a, tk, "unexpected-exception" if ob["err"] else "missing-exception"),
                             "%s raised %s, spec %s; history %s" % (a, "an exception" if ob["err"] else "nothing",
                                                                  "error" if want_err else "ok", hist_txt), rec(i))
            want = S(s["doc"])
            if ob["S"] != want:
                ctx.mismatch("document:%s%s" % (a, tk), "after %s the document reads %s, spec %s; history %s" %
                             (a, ob["S"], want, hist_txt), rec(i))
                break     # later steps start from a different document
            if ob["S2"] != ob["S"]:
                ctx.mismatch("reads-changed-the-document", "document %s became %s after reading; history %s" %
                             (ob["S"], ob["S2"], hist_txt), rec(i))
            if ob["size"] != s["size"]:
                ctx.mismatch("size:root", "size() = %d, spec %d for %s" % (ob["size"], s["size"], want), rec(i))
            if s["doc"]["k"] == "obj" and ob["keys"] != ",".join(s["doc"]["ks"]):
                ctx.mismatch("keys:root", "keys() = %s, spec %s" % (ob["keys"], s["doc"]["ks"]), rec(i))
            for t, p in enumerate(paths):
                reads_checked += 1
                rd, R = s["rd"][t], ob["R"][t]
                k = kind(rd["v"])
                ev = S(rd["v"])
                pt = "/".join(p)
                kx = k + (":escaped-slash" if "\\" in pt else "")
                where = "path %s of %s; history %s" % (pt, want, hist_txt)
                if R["C"] != ev:
                    ctx.mismatch("read:const[]:%s" % kx, "const operator[] reads %s, spec %s; %s" % (R["C"], ev, where), rec(i))
                if R["H"] != rd["h"]:
                    ctx.mismatch("read:has:%s" % kx, "has() = %d, spec %d; %s" % (R["H"], rd["h"], where), rec(i))
                eg = ev if k != "none" else q("DFLT")
                if R["G"] != eg:
                    ctx.mismatch("read:get<json>:%s" % kx, "get<json>(path, \"DFLT\") reads %s, spec %s; %s" % (R["G"], eg, where), rec(i))
                if R["P"] != ev:
                    ctx.mismatch("read:getPathValue:%s" % kx, "getPathValue reads %s, spec %s; %s" % (R["P"], ev, where), rec(i))
                if k in ("none", "num"):
                    ei = -7 if k == "none" else int(rd["v"])
                    if R["Gi"] != ei:
                        ctx.mismatch("read:get<int>:%s" % kx, "get<int>(path, -7) = %d, spec %d; %s" % (R["Gi"], ei, where), rec(i))
                if k in ("none", "str"):
                    es = "DFLT" if k == "none" else rd["v"]
                    if R["Gs"] != es:
                        ctx.mismatch("read:get<string>:%s" % kx, "get<string>(path, \"DFLT\") = %r, spec %r; %s" % (R["Gs"], es, where), rec(i))
                if k != "str" and R["Z"] != rd["z"]:
                    ctx.mismatch("read:size:%s" % kx, "size() of the value read = %d, spec %d; %s" % (R["Z"], rd["z"], where), rec(i))
            prev_rd = s["rd"]
    return steps_checked, reads_checked


def run(ctx):
    rng = random.Random(ctx.seed)
    ph = Phases(ctx)
    thorough = ctx.tier == "thorough"
    if ctx.replay:
        recs = load_replay(ctx.replay)
        if "e" in recs[0]["case"]:          # a driver-log prefix rejected by trace validation: validate it again
            log = os.path.join(ctx.tmp, "replay-trace.ndjson")
            with open(log, "w") as f:
                for r in recs:
                    f.write(pyjson.dumps(r["case"]) + "\n")
            n = validate_log(ctx, log)
            if n is not None:
                print("trace accepted: %d events" % n)
            return finish_keeping_evidence(ctx)
        behaviours = [r["spec"] for r in recs]
        cases = [r["case"] for r in recs]
        rb, per_gen = None, {}
    else:
        # 1. design run + vacuity; a shallow merge must be rejected by the model's theorems
        r = ctx.tlc("mc/MC_OJson.tla", "mc/OJson_design_big.cfg" if thorough else "mc/OJson_design.cfg",
                    workers=(8 if thorough else 4), coverage=True, timeout=3000)
        ctx.tlc_must_pass(r, "OJson design")
        ctx.require_coverage(r, ["SetPath", "Remove", "SetKey", "Merge"])
        rb = ctx.tlc("mc/MC_OJson.tla", "mc/OJson_shallow.cfg", workers=1, expect_violation=True)
        if rb.violated != "MergeRightWins":
            raise Broken("OJson with Variant=shallowMerge should violate MergeRightWins (theorems lost their sensitivity): rc=%s violated=%s"
                         % (rb.rc, rb.violated))
        ph.mark("tlc-design")
        # 2. behaviours
        if thorough:
            gens = [("gen_big", None, None, 3), ("gen3", None, None, 1), ("genS", None, None, 1), ("genE", None, None, 2), ("sim", 5000, 10, 3)]
        else:
            gens = [("gen", None, None, 2), ("gen3", None, None, 1), ("genS", None, None, 1), ("genE", None, None, 2), ("sim", 300, 10, 3)]
        jobs = [(name, dict(spec="mc/MC_OJson.tla", cfg="mc/OJson_%s.cfg" % name, workers=1,
                            simulate=sim, depth=(depth + 2 if depth else None), timeout=3000))
                for name, sim, depth, _ in gens]
        results = tlc_many(ctx, jobs, par=3)
        behaviours, cases, per_gen = [], [], {}
        seen = set()
        for name, sim, depth, plen in gens:
            g = results[name]
            if g.rc != 0 and not g.printed:
                raise Broken("generation failed (%s): %s" % (name, g.out[-2000:]))
            bs = b_json_tolerant(g, name)
            if not bs:
                raise Broken("no behaviours generated by %s:\n%s" % (name, g.out[-1500:]))
            per_gen[name] = len(bs)
            paths = path_list(plen, ("a", "a\\/b")) if name == "genE" else path_list(plen)
            for b in bs:
                if len(b[0]["rd"]) != len(paths):
                    raise Broken("path enumeration of the check and of the spec differ (%s)" % name)
                key = pyjson.dumps([(s["a"], s["p"], s["key"], s["v"]) for s in b], sort_keys=True) + str(plen)
                if key in seen:
                    continue
                seen.add(key)
                behaviours.append(b)
                cases.append({"paths": paths, "steps": [{"a": s["a"], "p": s["p"], "key": s["key"], "v": s["v"]} for s in b]})
        ph.mark("tlc-generate")

    def rec(i):
        return [{"case": cases[i], "spec": behaviours[i]}]
    exe, lib = ctx.build_harness("ojson_replay", ["ojson_replay.cpp"])
    env = ctx.occa_env(lib)
    env["ASAN_OPTIONS"] += ":quarantine_size_mb=16"
    ph.mark("build")
    outs, crashes, info = run_cases_par(ctx, exe, env, cases, ways=(8 if thorough else 4), tag="o")
    ph.mark("replay")
    for c in crashes:
        b = cases[c["beh"]]
        act = b["steps"][c["step"]]["a"] if 0 <= c["step"] < len(b["steps"]) else "?"
        ctx.mismatch(crash_sig(c, act), "sanitizer/crash at step %s (%s) of %s: %s" %
                     (c["step"], act, b["steps"], "; ".join("%s %s %s" % r for r in c["reports"]) or c["crash"]), rec(c["beh"]))
    for rep in info["soft_reports"]:
        ctx.mismatch("ub:%s@%s:%s" % (rep[0], rep[2] or "?", rep[1].split(":")[0]),
                     "UBSan report while replaying: %s at %s in %s" % rep, None)
    steps_checked, reads_checked = compare(ctx, behaviours, cases, outs, rec)
    ph.mark("compare")
    # 3. trace validation of a seeded random driver
    tv = {} if ctx.replay else trace_validation(ctx, lib, env, thorough)
    ph.mark("trace-validation")
    ph.done()
    ctx.traces_validated = len(outs) + tv.get("traces", 0)
    ctx.samples = [cases[0], cases[len(cases) // 2], cases[-1]]
    ctx.cov.update({"behaviours_replayed": len(outs), "steps_checked": steps_checked, "reads_checked": reads_checked,
                    "crashes": len(crashes), "behaviours_by_generator": per_gen, "model_shallow_merge_violates": rb.violated if rb else "(replay)",
                    "trace_events_validated": tv.get("events", 0), "trace_histories": tv.get("traces", 0)})
    ctx.assumptions += [
        "keys a, b as path components (paths of 1..3 components), the key 'a/b' only through set() and as a member of += right-hand sides",
        "values written: 1, \"s\", null, {}; += right-hand sides: six small objects (depth <= 3); arrays are not part of this model",
        "writing through an existing non-object raises an exception and changes nothing (the property is silent about it; this is what the code documents)",
        "set(key, v) on a non-object replaces it by {key: v}",
        "size() of a string (its length) is not compared; typed get<int>/get<string> are compared only when the stored kind matches or the path is missing",
        "the non-const operator[] used as a read is not part of the histories (it creates the path by design)",
        "ASan/UBSan active during replay",
    ]
    if ctx.replay:
        return finish_keeping_evidence(ctx)
    return ctx.finish(exhaustive=False)


def trace_validation(ctx, lib, env, thorough):
    """T: seeded random driver -> ndjson log -> OJsonTrace.tla.  Returns counts (empty if the trace spec is absent)."""
    spec = os.path.join(VERIF, "spec", "trace", "OJsonTrace.tla")
    drv = os.path.join(VERIF, "harness", "ojson_driver.cpp")
    if not (os.path.exists(spec) and os.path.exists(drv)):
        return {}
    exe, _ = ctx.build_harness("ojson_driver", ["ojson_driver.cpp"])
    log = os.path.join(ctx.tmp, "ojson-trace.ndjson")
    n_hist, n_ops = (200, 60) if thorough else (25, 30)
    rc, out = sh([exe, log, str(ctx.seed), str(n_hist), str(n_ops)], timeout=900, env=env)
    if rc != 0:
        ctx.mismatch("driver:crash", "the random driver crashed (rc=%d): %s" % (rc, out[-1500:]), None)
        return {}
    res = validate_log(ctx, log)
    if res is None:
        return {}
    return {"events": res, "traces": n_hist}


def validate_log(ctx, log):
    """OJsonTrace on one ndjson driver log; returns the number of events if all were accepted, else records the rejection"""
    import re
    events = sum(1 for _ in open(log))
    r = ctx.tlc("trace/OJsonTrace.tla", "trace/OJsonTrace.cfg", workers=1, env={"TRACE": log}, deadlock=False,
                timeout=3000, count=False)
    m = None
    for m in re.finditer(r'"TRACE-ACCEPTED", (\d+)', r.out):
        pass
    accepted = int(m.group(1)) if m else -1
    if r.rc == 0 and accepted == events:
        return events
    if accepted < 0:
        raise Broken("trace validation failed without an acceptance count (rc=%s):\n%s" % (r.rc, r.out[-3000:]))
    stuck = accepted + 1
    lines = open(log).read().splitlines()
    if 0 < stuck <= len(lines):
        ev = pyjson.loads(lines[stuck - 1])
        start = max(k for k in range(stuck) if pyjson.loads(lines[k])["e"] == "reset")
        ctx.mismatch("trace:%s" % ev["e"], "OJsonTrace rejects event %d of the driver log: %s" % (stuck, lines[stuck - 1][:600]),
                     [{"case": pyjson.loads(l), "spec": "driver log prefix up to the rejected event (re-validated by ./check C25 --replay)"}
                      for l in lines[start:stuck]])
        return None
    raise Broken("trace validation failed without a located event (rc=%s):\n%s" % (r.rc, r.out[-3000:]))
