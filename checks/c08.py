"""C08 -- a crash at any point of a kernel build never poisons the cache.

Spec  cache/CacheFS.tla (what the OS does per call class; NoPartialUnderFinalName) + cache/KernelCache.tla
      (the build script of core/device.cpp, serial/openmp device.cpp, sys::compilerVendor,
      openmp::compilerFlag, io::cacheFile/stageFile(s)/write/sync flattened to one micro-instruction per
      file-system call; Crash enabled before every call; follow-up build in a fresh process).
MC    mc/KernelCache_c08_design.cfg (+ c08_multi, c09_crash in the thorough tier); the named deviation
      "output written in place" must violate the invariants (self-test of the model, not of the code).
T     a complete build of each variant (Serial/OpenMP x string/file) is recorded with strace -f, projected
      onto the CacheFS call classes (tools/cachefs.py) and validated against trace/CacheFSTrace.tla;
      the same event sequence is compared step by step with the behaviour TLC generates from the script.
S     every file-system call of the building process (thorough) / one per distinct spec step (quick) is
      a kill point: the build is re-run under `strace -e inject=<call>:signal=SIGKILL:when=<j>`, the
      cache directory is projected onto absent|partial|ok|bad per final name (must be what the model has
      at that point: no partial/bad final name), then a fresh process must build and run the kernel.
"""
import os, shutil, threading, time
from concurrent.futures import ThreadPoolExecutor
import vlib
from vlib import Broken
import cachefs as C


def tlc_bg(ctx, results, key, spec, cfg, **kw):
    def work():
        try:
            results[key] = ctx.tlc(spec, cfg, count=False, **kw)
        except Exception as ex:          # reported by the caller
            results[key] = ex
    t = threading.Thread(target=work)
    t.start()
    time.sleep(0.2)                       # distinct metadir names
    return t


def model_runs(ctx, jobs):
    """design runs + model self-tests; started in the background, joined by finish_model"""
    res, threads = {}, []
    w = max(1, min(4, jobs // 2))
    threads.append(tlc_bg(ctx, res, "design", "mc/MC_KernelCache.tla", "mc/KernelCache_c08_design.cfg",
                          workers=w, timeout=1500))
    def cov():
        try:
            res["cov"] = C.action_coverage(ctx, "mc/KernelCache_c08_cov.cfg", workers=1)
        except Exception as ex:
            res["cov"] = ex
    t = threading.Thread(target=cov)
    t.start()
    time.sleep(0.2)
    threads.append(t)
    threads.append(tlc_bg(ctx, res, "inplace", "mc/MC_KernelCache.tla", "mc/KernelCache_c08_inplace.cfg",
                          workers=1, timeout=900, expect_violation=True))
    threads.append(tlc_bg(ctx, res, "inplace_followup", "mc/MC_KernelCache.tla",
                          "mc/KernelCache_c08_inplace_followup.cfg", workers=1, timeout=900, expect_violation=True))
    if ctx.tier == "thorough":
        threads.append(tlc_bg(ctx, res, "multi", "mc/MC_KernelCache.tla", "mc/KernelCache_c08_multi.cfg",
                              workers=w, timeout=1500))
        threads.append(tlc_bg(ctx, res, "conc_crash", "mc/MC_KernelCache.tla", "mc/KernelCache_c09_crash.cfg",
                              workers=w, timeout=1500))
    return res, threads


def finish_model(ctx, res, threads):
    for t in threads:
        t.join()
    for k, r in res.items():
        if isinstance(r, Exception):
            raise Broken("TLC run %s raised %r" % (k, r))
    for k in ("design", "multi", "conc_crash"):
        if k in res:
            ctx.tlc_must_pass(res[k], "KernelCache " + k)
            ctx.tlc_states += res[k].distinct
            ctx.tlc_transitions += res[k].generated
    ctx.tlc_must_pass(res["cov"], "KernelCache vacuity run")
    ctx.require_coverage(res["cov"], C.ACTIONS + ["Crash"])
    ctx.cov["model_action_edges"] = {a: n for a, (n, _) in sorted(res["cov"].coverage.items())}
    # the invariants are not vacuous: the named deviation is caught by each of them
    if res["inplace"].violated != "NoPartialUnderFinalName":
        raise Broken("model self-test: in-place output not caught by NoPartialUnderFinalName:\n" + vlib.tail(res["inplace"].out, 30))
    if res["inplace_followup"].violated != "FollowUpSucceeds":
        raise Broken("model self-test: in-place output does not break FollowUpSucceeds:\n" + vlib.tail(res["inplace_followup"].out, 30))
    ctx.cov["model"] = {k: {"states": r.distinct, "transitions": r.generated, "violated": r.violated}
                        for k, r in res.items()}


def choose_points(points, events, tier, seen):
    """kill points: from the first call that touches the cache to the last call of the process.
    thorough: all of them.  quick: the first point of every kind of step not yet chosen for an earlier
    variant, plus 8 evenly spaced points of this variant."""
    first = next((p["k"] for p in points if p["cache"]), None)
    if first is None:
        raise Broken("the recorded build never touched the cache directory")
    cand = [p for p in points if p["k"] >= first]
    if tier != "quick":
        return [points[0]] + cand, first          # + one trivial point: killed while still loading
    chosen = []
    for p in cand:
        key = ("event",) + C.sig(events[p["ev"]]) if p["ev"] is not None else ("call", p["sc"])
        if key not in seen:
            seen.add(key)
            chosen.append(p)
    step = max(1, len(cand) // 8)
    for p in cand[step // 2::step]:
        if p not in chosen:
            chosen.append(p)
    return [points[0]] + sorted(chosen, key=lambda p: p["k"]), first


def kill_once(ctx, exe, lib, v, mode, kind, point, cache, namer_map, reference):
    """one kill experiment -> record"""
    shutil.rmtree(cache, ignore_errors=True)
    env = C.occa_env(ctx, lib, cache)
    log = cache + ".strace"
    rc, out = C.run(C.strace_cmd(log, C.harness_argv(exe, mode, kind), trace=C.INJECT, follow=False,
                                 inject=(point["sc"], "SIGKILL", point["j"])), env, 240)
    rec = {"variant": v, "k": point["k"], "call": "%s#%d" % (point["sc"], point["j"]), "cache": cache}
    if rc is None:
        rec["problem"] = "killed-run-timeout"
        return rec
    mp, calls, ends = C.parse_strace(log)
    rec["ending"] = list(ends.get(mp, ("none", None)))
    namer = C.Namer(cache, namer_map)
    evs, pts = C.project(mp, calls, namer)
    rec["calls_before_kill"] = len([p for p in pts]) - (1 if calls and calls[-1]["ret"] == "?" else 0)
    if rec["ending"][0] != "kill":
        rec["problem"] = "not-killed"            # the call sequence differed from the recorded one
        return rec
    rec["aligned"] = (len(pts) == point["k"] and pts[-1]["sc"] == point["sc"])
    last = next((e for e in reversed(evs) if e.get("k") == len(pts)), None)
    rec["at"] = list(C.sig(last)) if last else ["call", point["sc"], False]
    state, litter = C.project_dir(cache, namer, reference)
    rec["state"], rec["litter"] = state, litter
    # the follow-up build: a fresh process, same kernel, same cache directory
    frc, fout = C.run(C.harness_argv(exe, mode, kind, verbose=True), env, 240)
    if frc is None:
        rec["problem"] = "followup-timeout"      # overload or hang: not decidable here, counted as not imposed
        return rec
    res = C.result_of(fout)
    rec["followup"] = {"rc": frc, "result": list(res) if res else None,
                       "compiled": "Compiling [" in (fout or ""), "loaded": "Loading cached [" in (fout or "")}
    if frc != 0 or not res or not res[0] or res[1] != res[2]:
        rec["followup"]["log"] = C.error_text(fout)
    fstate, flitter = C.project_dir(cache, namer, reference)
    rec["final_state"] = fstate
    return rec


def judge(rec, reference, predicted):
    """-> list of (sig, what).  Only the statement: no partial/bad final name, follow-up succeeds with
    the right value, and leaves a complete cache."""
    bad = []
    at = ":".join(str(x) for x in rec.get("at", ["?"]))
    for f, s in sorted(rec.get("state", {}).items()):
        if s in ("partial", "bad", "unknown"):
            bad.append(("poison:%s:%s" % (f, s), "after a kill at %s (%s, call %s) the final name %s is %s"
                        % (at, rec["variant"], rec["call"], f, s)))
    fu = rec.get("followup")
    if fu is not None:
        r = fu["result"]
        if fu["rc"] != 0 or not r or not r[0] or r[1] != r[2]:
            why = "value" if (r and fu["rc"] in (0, 5)) else "fails"
            leftover = ",".join("%s=%s" % (f, s) for f, s in sorted(rec.get("state", {}).items()) if s != "ok") or "clean"
            bad.append(("followup-%s:%s" % (why, leftover),
                        "follow-up build after a kill at %s (%s, call %s) exit=%s result=%s: %s"
                        % (at, rec["variant"], rec["call"], fu["rc"], r, fu.get("log", ""))))
        else:
            missing = [f for f in reference if rec["final_state"].get(f) != "ok"]
            if missing:
                bad.append(("followup-leaves-incomplete:%s" % ",".join(sorted(missing)),
                            "after the follow-up build these final names are not complete: %s (kill at %s, %s)"
                            % (missing, at, rec["variant"])))
    return bad


def replay(ctx, exe, lib):
    """./check C08 --replay <file>: re-execute a stored kill experiment or re-validate a stored trace"""
    recs = C.load_replay(ctx.replay)
    head = recs[0]
    if "rejected" in head:
        C.replay_trace(ctx, recs)
    else:
        v = next(x for x in C.ALL_VARIANTS if x[0] == head["variant"])
        vid, mode, kind = v
        cache = os.path.join(ctx.tmp, "%s-ref0" % vid)
        rc, out, mp, calls, ends = C.record(ctx, exe, C.occa_env(ctx, lib, cache), mode, kind, cache + ".strace")
        if rc != 0:
            raise Broken("the undisturbed build of %s failed:\n%s" % (vid, C.tail(out, 15)))
        namer = C.Namer(cache)
        evs, pts = C.project(mp, calls, namer)
        sc, j = head["call"].split("#")
        p = next(x for x in pts if x["sc"] == sc and x["j"] == int(j))
        rec = kill_once(ctx, exe, lib, vid, mode, kind, p, os.path.join(ctx.tmp, "%s-replay" % vid), dict(namer.dirmap),
                        C.reference_of(cache, namer))
        print("replayed kill at %s: state=%s followup=%s" % (rec.get("at"), rec.get("state"), rec.get("followup")))
        for s, w in (judge(rec, C.reference_of(cache, namer), None) if "problem" not in rec else []):
            ctx.mismatch(s, w, [{k: rec.get(k) for k in ("variant", "k", "call", "at", "state", "followup", "final_state")}])
    ctx.cov.update({"evaluations": 1, "distinct_nontrivial": 1, "rule": "replay of " + os.path.basename(ctx.replay)})
    ctx.samples = [head]
    return ctx.finish(exhaustive=False)


def run(ctx):
    ctx.level = "fault_enumeration"
    jobs = int(os.environ.get("VERIF_JOBS", "8" if ctx.tier == "quick" else "16"))
    exe, lib = ctx.build_harness("cache_build", ["cache_build.cpp"], variant="fast")
    if ctx.replay:
        return replay(ctx, exe, lib)
    mres, mthreads = model_runs(ctx, jobs)
    hists = C.model_histories(ctx)

    # ---- T: record a complete build per variant
    refs = {}
    def rec_ref(v):
        vid, mode, kind = v
        cache = os.path.join(ctx.tmp, "%s-ref0" % vid)
        rc, out, mp, calls, ends = C.record(ctx, exe, C.occa_env(ctx, lib, cache), mode, kind, cache + ".strace")
        res = C.result_of(out)
        if rc != 0 or not res or not res[0]:
            raise Broken("the undisturbed build of %s failed (rc=%s):\n%s" % (vid, rc, C.tail(out, 15)))
        namer = C.Namer(cache)
        evs, pts = C.project(mp, calls, namer)
        refs[vid] = {"cache": cache, "events": evs, "points": pts, "dirmap": dict(namer.dirmap),
                     "reference": C.reference_of(cache, namer), "value": res[1]}
    with ThreadPoolExecutor(max_workers=min(4, jobs)) as ex:
        list(ex.map(rec_ref, C.VARIANTS))

    runs = [(False, refs[v[0]]["events"], True) for v in C.VARIANTS]      # fresh cache, nobody else, children recorded
    ctx.traces_validated += C.validate_many(ctx, runs, "refs", lambda i: "the recorded build of %s" % C.VARIANTS[i][0])

    # ---- the script of the model is the script of the code (event by event)
    conform = {}
    for vid, mode, kind in C.VARIANTS:
        ok, where, amap = C.align(refs[vid]["events"], hists[vid][0])
        conform[vid] = ok
        refs[vid]["amap"], refs[vid]["hist"] = (amap if ok else None), hists[vid][0]
        if not ok:
            ctx.notes.append("MODEL-DRIFT %s: real and model event sequences differ at %s" % (vid, where))
            print("MODEL-DRIFT property=C08 variant=%s %s" % (vid, where))
    ctx.cov["script_conformance"] = conform

    # ---- S: kill points
    work, seen_kinds = [], set()
    for vid, mode, kind in sorted(C.VARIANTS, key=lambda v: -len(refs[v[0]]["points"])):
        chosen, first = choose_points(refs[vid]["points"], refs[vid]["events"], ctx.tier, seen_kinds)
        refs[vid]["first"] = first
        for n, p in enumerate(chosen):
            work.append((vid, mode, kind, p))
    def do(item):
        vid, mode, kind, p = item
        cache = os.path.join(ctx.tmp, "%s-k%04d" % (vid, p["k"]))
        rec = kill_once(ctx, exe, lib, vid, mode, kind, p, cache, refs[vid]["dirmap"], refs[vid]["reference"])
        bad = judge(rec, refs[vid]["reference"], None) if "problem" not in rec else []
        if bad:
            # a rejection is re-executed once before it is reported
            rec2 = kill_once(ctx, exe, lib, vid, mode, kind, p, cache + "r", refs[vid]["dirmap"], refs[vid]["reference"])
            bad2 = judge(rec2, refs[vid]["reference"], None) if "problem" not in rec2 else []
            sigs2 = {s for s, _ in bad2}
            bad = [(s, w) for s, w in bad if s in sigs2]
            rec["repeated"] = bool(bad)
            shutil.rmtree(cache + "r", ignore_errors=True)
        rec["bad"] = bad
        shutil.rmtree(cache, ignore_errors=True)
        return rec
    t0 = time.time()
    with ThreadPoolExecutor(max_workers=jobs) as ex:
        recs = list(ex.map(do, work))
    ctx.notes.append("kill experiments: %d in %.0fs with %d jobs" % (len(recs), time.time() - t0, jobs))

    problems = [r for r in recs if "problem" in r]
    if len(problems) > max(2, len(recs) // 10):
        raise Broken("%d of %d kill experiments could not be imposed (e.g. %s)" % (len(problems), len(recs), problems[0]))
    evaluations, nontrivial, outside_model = 0, set(), 0
    for r in recs:
        if "problem" in r:
            continue
        evaluations += 1
        vid = r["variant"]
        for s, w in r["bad"]:
            ctx.mismatch(s, w, [{k: r.get(k) for k in ("variant", "k", "call", "at", "state", "followup", "final_state")}])
        if r["k"] >= refs[vid]["first"] and r["state"] is not None:
            nontrivial.add((vid, tuple(r["at"]), tuple(sorted(r["state"].items())), r["litter"]))
        # what the model has at this point (only when the scripts agree)
        amap = refs[vid]["amap"]
        if amap is not None and r.get("aligned"):
            done = [i for i, e in enumerate(refs[vid]["events"]) if e.get("k") is not None and e["k"] < r["k"] and i in amap]
            pred = refs[vid]["hist"][amap[done[-1]]]["s"] if done else {}
            pred = pred if isinstance(pred, dict) else {}
            if pred != r["state"]:
                outside_model += 1
                ctx.notes.append("state after kill at k=%d (%s) differs from the model: real %s, model %s" % (r["k"], vid, r["state"], pred))
    finish_model(ctx, mres, mthreads)
    ctx.cov.update({
        "evaluations": evaluations,
        "distinct_nontrivial": len(nontrivial),
        "rule": "kill points = file-system calls (%s) of the building process taken from a recorded complete build of each of "
                "the 4 variants, from its first call on the cache directory to its last call (%s); each evaluation = kill at "
                "that call's entry (strace inject SIGKILL), projection of the cache directory, follow-up build in a fresh "
                "process; non-trivial = the kill came after the first call on the cache directory; distinct = distinct "
                "(variant, spec step at which the kill happened, projected state of every final name, number of temp files)"
                % (",".join(C.INJECT[:10]) + ",...", "all of them" if ctx.tier == "thorough" else "the first of each distinct spec step over the variants + 8 evenly spaced per variant"),
        "kill_points_total": {v[0]: len([p for p in refs[v[0]]["points"] if p["k"] >= refs[v[0]]["first"]]) for v in C.VARIANTS},
        "kill_points_not_imposed": len(problems),
        "followups_compiled": len([r for r in recs if r.get("followup", {}).get("compiled")]),
        "followups_loaded_cached": len([r for r in recs if r.get("followup", {}).get("loaded") and not r["followup"]["compiled"]]),
        "states_differing_from_model": outside_model,
        "traces_validated_against_impl": ctx.traces_validated,
        "states": ctx.tlc_states, "transitions": ctx.tlc_transitions,
    })
    good = [r for r in recs if "problem" not in r]
    ctx.samples = [{k: r.get(k) for k in ("variant", "k", "call", "at", "state", "litter", "followup")}
                   for r in (good[1:2] + good[len(good) // 2:len(good) // 2 + 1] + good[-2:-1])]
    ctx.assumptions += [
        "a crash is a SIGKILL of the building process at the entry of one of its own file-system calls; power loss / durability (io::sync) is not modelled",
        "the spawned compiler and shell are not killed; they only ever create temp names (checked on the recorded traces: ChildOpenW on a final name is rejected)",
        "a final name is 'ok' when its bytes equal those of the same file after an undisturbed build (build.json modulo date); g++ output is deterministic here",
        "kill points are taken from one recorded run per variant; strace's when= counts per syscall, runs whose call sequence differed are counted in kill_points_not_imposed",
        "4 variants: Serial/OpenMP x kernel from string / from file; compiler g++; the kernel has no header dependencies",
    ]
    return ctx.finish(exhaustive=(ctx.tier == "thorough"))
