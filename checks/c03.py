"""C03 -- memory-pool reservations never overlap and keep their contents (see poolcheck.py)."""
import poolcheck


def run(ctx):
    return poolcheck.run(ctx, "C03")
