"""C04 -- memory-pool accounting matches its live reservations (see poolcheck.py)."""
import poolcheck


def run(ctx):
    return poolcheck.run(ctx, "C04")
