"""C30 -- sharable devices: concurrent handle use.
  spec/runtime/SharedHandles.tla   threads x handle operations at the code's atomicity
      AtomicRelease = TRUE   the intended design  (must satisfy all invariants: model-checked)
      AtomicRelease = FALSE  as implemented       (TLC enumerates all its schedules with predicted outcome)
  harness/shared_sched.cpp   imposes every model schedule on real threads (yield points H3, registry H1)
  harness/shared_stress.cpp  free-running threads under ThreadSanitizer
The oracle is the intended model: the outcome observed at quiescence of every imposed schedule must be an
outcome the intended model can reach (object destroyed exactly once, counters exact).
"""
import json, os, re, glob
from vlib import Broken, b_json, run_replayer, sh, tail

SCENARIOS = {
    "DropDrop": {"threads": ["t1", "t2"], "init": ["h1", "h2"],
                 "prog": {"t1": [["drop", "h1"]], "t2": [["drop", "h2"]]}},
    "Drop3": {"threads": ["t1", "t2", "t3"], "init": ["h1", "h2", "h3"],
              "prog": {"t1": [["drop", "h1"]], "t2": [["drop", "h2"]], "t3": [["drop", "h3"]]}},
    "Mixed": {"threads": ["t1", "t2"], "init": ["h1", "h2"],
              "prog": {"t1": [["malloc", 2], ["copy", "h1", "h3"], ["drop", "h3"], ["drop", "h1"]],
                       "t2": [["malloc", 3], ["drop", "h2"], ["free", 3]]}},
}
OBJ_BYTES = 16


def race_signatures(logdir):
    """ThreadSanitizer reports -> set of signatures 'race:<frameA>|<frameB>' (innermost libocca frames)."""
    sigs = {}
    for f in glob.glob(os.path.join(logdir, "tsan.*")):
        text = open(f, errors="replace").read()
        for rep in text.split("WARNING: ThreadSanitizer: ")[1:]:
            kind = rep.split("(")[0].strip().split("\n")[0]
            frames = []
            for block in re.split(r"\n\s*\n", rep):
                m = re.search(r"#0 (\S+)", block)
                if not m:
                    continue
                head = block.strip().split("\n")[0]
                if not re.search(r"(Read|Write|Previous|Atomic) ", head, re.I) and "of size" not in head:
                    continue
                fn = None
                for fm in re.finditer(r"#\d+ (.+?) (?:/|<null>|\S+:\d+)", block):
                    name = fm.group(1)
                    if name.startswith(("operator", "std::", "__", "verif", "occa::verif", "free", "malloc")):
                        continue
                    fn = re.sub(r"\(.*", "", name)
                    break
                frames.append(fn or "?")
            key = "race:" + "|".join(sorted(set(frames[:2]))) if kind.startswith("data race") else "tsan:" + kind.replace(" ", "-")
            sigs.setdefault(key, rep[:1500])
    return sigs


def run(ctx):
    # 1. design: the intended protocol satisfies the invariants for every schedule
    names = ["DropDrop", "Drop3", "Mixed"]
    asimpl = {}
    for sc in names:
        r = ctx.tlc("mc/MC_SharedHandles.tla", "mc/SharedHandles_%s_TRUE.cfg" % sc, workers=4, coverage=(sc == "Mixed"))
        ctx.tlc_must_pass(r, "SharedHandles intended %s" % sc)
        if sc == "Mixed":
            ctx.require_coverage(r, ["DropCS", "CopyCS", "CountRead"])
        r2 = ctx.tlc("mc/MC_SharedHandles.tla", "mc/SharedHandles_%s_FALSE.cfg" % sc, workers=4)
        if r2.rc not in (0, 12):
            raise Broken("as-implemented model run failed: %s" % tail(r2.out, 20))
        asimpl[sc] = r2.violated
    ctx.cov["as_implemented_model_violates"] = {k: (v or "-") for k, v in asimpl.items()}
    # 2. schedules of the as-implemented model, outcomes of the intended model
    use = names if ctx.tier == "thorough" else ["DropDrop", "Drop3"]
    cases, meta = [], []
    intended = {}
    for sc in use:
        g = ctx.tlc("mc/MC_SharedHandles.tla", "mc/SharedHandles_%s_gen_TRUE.cfg" % sc, workers=1)
        intended[sc] = {(x["d"], x["b"]) for x in b_json(g)}
        if not intended[sc]:
            raise Broken("no intended outcomes for %s" % sc)
        g = ctx.tlc("mc/MC_SharedHandles.tla", "mc/SharedHandles_%s_gen_FALSE.cfg" % sc, workers=2, timeout=2400)
        bs = b_json(g)
        if not bs:
            raise Broken("no schedules for %s" % sc)
        for x in bs:
            c = dict(SCENARIOS[sc])
            c["sched"] = x["sched"]
            cases.append(c)
            meta.append((sc, x))
    exe, lib = ctx.build_harness("shared_sched", ["shared_sched.cpp"], variant="tsan")
    env = ctx.occa_env(lib)
    env["TSAN_OPTIONS"] = "report_bugs=0:exitcode=0"     # schedules are imposed: the registry is the observer here
    outs, crashes = run_replayer(ctx, exe, env, cases, timeout=3000, max_restarts=len(cases) + 5)
    crashed = {c["beh"]: c for c in crashes}
    stuck = conform = known_shape = 0
    for i, (sc, x) in enumerate(meta):
        o = outs.get(i)
        replay = [dict(cases[i], scenario=sc, predicted={k: x[k] for k in ("d", "b", "a", "u")})]
        if o is not None and "stuck" in o:
            stuck += 1
            continue
        if o is None or i in crashed and o is None:
            c = crashed.get(i)
            if c is None:
                continue
            if x["d"] >= 2 or x["u"]:
                known_shape += 1
                ctx.mismatch("double-destroy:check-then-delete-outside-lock",
                             "scenario %s: process died (%s) executing a schedule for which the as-implemented model predicts %d destructor runs / use after destruction: %s" % (sc, c["crash"], x["d"], x["sched"]), replay)
            else:
                ctx.mismatch("crash:%s@%s" % (c["crash"], sc), "scenario %s: crash %s in schedule %s" % (sc, c["crash"], x["sched"]), replay)
            continue
        runs = o["destroyed"] + o["anomalies"]
        net = x["net"]
        bytes_obs = o["bytes"] + (OBJ_BYTES if runs >= 1 else 0)
        ok_outcomes = intended[sc]
        if (min(runs, 9), net) in ok_outcomes and bytes_obs == net:
            conform += 1
            continue
        if runs >= 2:
            if x["d"] >= 2:
                known_shape += 1
                ctx.mismatch("double-destroy:check-then-delete-outside-lock",
                             "scenario %s: the object's destructor ran %d times under schedule %s (as predicted by the as-implemented model; the intended model allows exactly 1)" % (sc, runs, x["sched"]), replay)
            else:
                ctx.mismatch("double-destroy:unpredicted-schedule@%s" % sc,
                             "scenario %s: destructor ran %d times under schedule %s, which even the as-implemented model does not predict" % (sc, runs, x["sched"]), replay)
        elif runs == 0:
            ctx.mismatch("leak@%s" % sc, "scenario %s: object never destroyed although no handle is left, schedule %s" % (sc, x["sched"]), replay)
        if bytes_obs != net:
            ctx.mismatch("miscount@%s" % sc, "scenario %s: memoryAllocated off by %d at quiescence, schedule %s" % (sc, bytes_obs - net, x["sched"]), replay)
    executed = len(meta) - stuck
    if executed == 0:
        raise Broken("no model schedule could be imposed on the implementation (%d stuck)" % stuck)
    ctx.traces_validated = executed
    ctx.cov.update({"schedules_generated": len(meta), "schedules_imposed": executed, "schedules_not_followable": stuck,
                    "schedules_conforming_to_intended": conform, "schedules_showing_known_defect": known_shape})
    # 3. free-running stress under ThreadSanitizer
    sexe, lib = ctx.build_harness("shared_stress", ["shared_stress.cpp"], variant="tsan")
    plans = [(2, 300), (4, 300), (8, 200)] if ctx.tier == "quick" else [(t, 400) for t in (2, 3, 4, 6, 8, 12, 16)] * 3
    logdir = os.path.join(ctx.tmp, "tsanlogs")
    os.makedirs(logdir, exist_ok=True)
    stress_runs = 0
    for k, (threads, iters) in enumerate(plans):
        env = ctx.occa_env(lib)
        env["TSAN_OPTIONS"] = "log_path=%s/tsan:exitcode=0:halt_on_error=0:history_size=4:second_deadlock_stack=1" % logdir
        outp = os.path.join(ctx.tmp, "stress-%d.json" % k)
        rc, out = sh([sexe, str(threads), str(iters), str(ctx.seed * 100 + k), outp], env=env, timeout=1200)
        stress_runs += 1
        rep = [{"threads": threads, "iterations": iters, "seed": ctx.seed * 100 + k}]
        if rc != 0 or not os.path.exists(outp):
            ctx.mismatch("stress-crash", "stress run with %d threads died (rc=%s): %s" % (threads, rc, out[-600:]), rep)
            continue
        res = json.load(open(outp))
        if res["anomalies"] > 0:
            ctx.mismatch("double-destroy:check-then-delete-outside-lock", "stress %d threads: %d destructor runs on dead objects" % (threads, res["anomalies"]), rep)
        if res["liveMemory"] != res["sharedAlive"] or res["liveBuffer"] != res["sharedAlive"]:
            ctx.mismatch("leak-or-lost-reference:stress", "stress %d threads: live memory objects %d / buffers %d, expected %d" % (threads, res["liveMemory"], res["liveBuffer"], res["sharedAlive"]), rep)
        if res["bytes"] != res["expected"]:
            ctx.mismatch("miscount:stress", "stress %d threads: memoryAllocated off by %d at quiescence" % (threads, res["bytes"] - res["expected"]), rep)
    races = race_signatures(logdir)
    for sig, text in sorted(races.items()):
        ctx.mismatch(sig, "ThreadSanitizer: " + " ".join(text.split())[:700], [{"tsan_report": text}])
    ctx.cov.update({"stress_runs": stress_runs, "tsan_report_signatures": sorted(races)})
    ctx.samples = [dict(cases[0], scenario=meta[0][0]), dict(cases[len(cases) // 2], scenario=meta[len(cases) // 2][0])]
    ctx.assumptions += [
        "one shared memory object on a Serial device in the ENABLE_SHARABLE_DEVICE + ThreadSanitizer build; handle kind memory (device/kernel/stream/memoryPool share the same release shape)",
        "yield points sit at the boundaries of the ring critical sections and before the bytesAllocated update; the update itself cannot be split by a yield point, lost updates are left to the race detector",
        "kernel building/running by several threads is exercised only by the stress driver's allocations, not modelled",
    ]
    return ctx.finish(exhaustive=(ctx.tier == "thorough"))
