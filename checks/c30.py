"""C30 -- sharable devices: concurrent handle use.
  spec/runtime/SharedHandles.tla   threads x handle operations at the code's atomicity
      AtomicRelease = TRUE   the intended design  (must satisfy all invariants: model-checked)
      AtomicRelease = FALSE  as implemented       (TLC enumerates all its schedules with predicted outcome)
  harness/shared_sched.cpp   imposes every model schedule on real threads (yield points H3, registry H1)
  harness/shared_stress.cpp  free-running threads under ThreadSanitizer
The oracle is the intended model: the outcome observed at quiescence of every imposed schedule must be an
outcome the intended model can reach (object destroyed exactly once, counters exact).
"""
import json, os, re, glob
from vlib import Broken, b_json, run_replayer, sh, tail

SCENARIOS = {
    "DropDrop": {"threads": ["t1", "t2"], "init": ["h1", "h2"],
                 "prog": {"t1": [["drop", "h1"]], "t2": [["drop", "h2"]]}},
    "Drop3": {"threads": ["t1", "t2", "t3"], "init": ["h1", "h2", "h3"],
              "prog": {"t1": [["drop", "h1"]], "t2": [["drop", "h2"]], "t3": [["drop", "h3"]]}},
    "Mixed": {"threads": ["t1", "t2"], "init": ["h1", "h2"],
              "prog": {"t1": [["malloc", 2], ["copy", "h1", "h3"], ["drop", "h3"], ["drop", "h1"]],
                       "t2": [["malloc", 3], ["drop", "h2"], ["free", 3]]}},
}
OBJ_BYTES = 16


SKIP = ("operator", "std::", "__", "occa::verif", "free", "malloc", "pthread", "memcpy", "memset")


def _frames(block):
    out = []
    for fm in re.finditer(r"#\d+ (.+?) (?:/\S+|<null>|\.\./\S+|\S+:\d+)", block):
        name = re.sub(r"\(.*", "", fm.group(1)).strip()
        if name and not name.startswith(SKIP) and not re.search(r"(^|\s)std::", name):
            out.append(name)
    return out


def classify(kind, accesses):
    """kind: TSan report kind; accesses: list (<=2) of frame lists of the racing accesses.
    Specific names for the reports that belong to the recorded findings, generic ones otherwise."""
    flat = [f for a in accesses for f in a[:4]]
    tops = [a[0] if a else "?" for a in accesses]
    tops = [t if t != "<null>" else (a[1] if len(a) > 1 else "?") for t, a in zip(tops, accesses)]
    kind = re.sub(r"^SEGV.*", "SEGV", kind)
    release_path = ("needsFree", "removeMemoryRef", "~modeMemory_t", "removeRef", "occa::memory::~memory",
                    "occa::serial::memory::~memory", "removeModeMemoryRef")
    if kind.startswith(("heap-use-after-free", "double-free", "attempting double-free", "SEGV", "DEADLYSIGNAL")):
        # an access to (or second release of) a backend object that another thread already destroyed
        if any(r in f for f in flat for r in release_path):
            return "double-destroy:check-then-delete-outside-lock"
        return "tsan:" + kind.replace(" ", "-") + ":" + "|".join(sorted(set(tops)))
    if kind.startswith("data race"):
        dtor = [("::~" in t and "emory" in t) for t in tops]
        if all(dtor) or (any(dtor) and any(r in t for t in tops for r in release_path if "::~" not in r)):
            return "double-destroy:check-then-delete-outside-lock"   # two threads releasing/destroying the same object
        if any("needsFree" in f for f in tops) and any("removeRef" in f or "addRef" in f or "needsFree" in f for f in tops):
            return "race:needsFree-read-outside-ring-lock"
        counter = ("occa::device::malloc", "occa::modeBuffer_t::~modeBuffer_t", "occa::device::memoryAllocated", "occa::device::maxMemoryAllocated")
        if all(any(t.startswith(c) for c in counter) for t in tops):
            return "race:bytesAllocated-unsynchronised"
        return "race:" + "|".join(sorted(set(tops)))
    return "tsan:" + kind.replace(" ", "-")


def race_signatures(logdir):
    """ThreadSanitizer reports -> {signature: sample report text}."""
    sigs = {}
    for f in glob.glob(os.path.join(logdir, "tsan.*")):
        text = open(f, errors="replace").read()
        for rep in re.split(r"(?:WARNING|ERROR): ThreadSanitizer: ", text)[1:]:
            kind = rep.split("\n")[0].split("(pid")[0].strip()
            accesses = []
            body = rep.split("\n", 1)[1] if "\n" in rep else rep      # drop the "<kind> (pid=..)" line
            for block in re.split(r"\n\s*\n", body):
                head = block.strip().split("\n")[0]
                if re.match(r"\s*(Previous )?(atomic )?(read|write) of size", head, re.I):
                    accesses.append(_frames(block))
            if not accesses:
                accesses = [_frames(rep)]
            sigs.setdefault(classify(kind, accesses[:2]), rep[:1500])
    return sigs


def run(ctx):
    # 1. design: the intended protocol satisfies the invariants for every schedule
    names = ["DropDrop", "Drop3", "Mixed"]
    asimpl = {}
    for sc in names:
        r = ctx.tlc("mc/MC_SharedHandles.tla", "mc/SharedHandles_%s_TRUE.cfg" % sc, workers=4, coverage=(sc == "Mixed"))
        ctx.tlc_must_pass(r, "SharedHandles intended %s" % sc)
        if sc == "Mixed":
            ctx.require_coverage(r, ["DropCS", "CopyCS", "ChildCS", "CountRead"])
        r2 = ctx.tlc("mc/MC_SharedHandles.tla", "mc/SharedHandles_%s_FALSE.cfg" % sc, workers=4)
        if r2.rc not in (0, 12):
            raise Broken("as-implemented model run failed: %s" % tail(r2.out, 20))
        asimpl[sc] = r2.violated
    ctx.cov["as_implemented_model_violates"] = {k: (v or "-") for k, v in asimpl.items()}
    # 2. schedules of the as-implemented model, outcomes of the intended model
    use = names
    # every schedule whose outcome is a double destruction kills the process (one restart each), so the
    # larger scenarios are sampled (seeded); DropDrop is always executed completely
    limit = {"DropDrop": None, "Drop3": 40, "Mixed": 40} if ctx.tier == "quick" else {"DropDrop": None, "Drop3": 400, "Mixed": 600}
    import random
    rnd = random.Random(ctx.seed)
    cases, meta = [], []
    intended = {}
    for sc in use:
        g = ctx.tlc("mc/MC_SharedHandles.tla", "mc/SharedHandles_%s_gen_TRUE.cfg" % sc, workers=1)
        intended[sc] = {(x["d"], x["b"], x["ch"]) for x in b_json(g)}
        if not intended[sc]:
            raise Broken("no intended outcomes for %s" % sc)
        g = ctx.tlc("mc/MC_SharedHandles.tla", "mc/SharedHandles_%s_gen_FALSE.cfg" % sc, workers=2, timeout=2400)
        bs = b_json(g)
        if not bs:
            raise Broken("no schedules for %s" % sc)
        if limit[sc] is not None and len(bs) > limit[sc]:
            bs = rnd.sample(sorted(bs, key=lambda x: json.dumps(x["sched"])), limit[sc])
        for x in bs:
            c = dict(SCENARIOS[sc])
            c["sched"] = x["sched"]
            cases.append(c)
            meta.append((sc, x))
    if ctx.replay:
        # --replay <file>: impose only the recorded schedule(s); predictions are looked up among the generated ones
        wanted = [json.loads(l) for l in open(ctx.replay) if l.strip()]
        keys = {json.dumps(w.get("sched")) for w in wanted if "sched" in w}
        keep = [i for i in range(len(cases)) if json.dumps(cases[i]["sched"]) in keys]
        if not keep:
            # the sampled set may not contain it: regenerate the scenario completely
            cases, meta = [], []
            for w in wanted:
                if "sched" not in w:
                    continue
                sc = w.get("scenario", "DropDrop")
                g = ctx.tlc("mc/MC_SharedHandles.tla", "mc/SharedHandles_%s_gen_FALSE.cfg" % sc, workers=2, timeout=2400)
                for x in b_json(g):
                    if json.dumps(x["sched"]) == json.dumps(w["sched"]):
                        c = dict(SCENARIOS[sc]); c["sched"] = x["sched"]; cases.append(c); meta.append((sc, x))
            if not cases:
                raise Broken("the schedule(s) in %s are not schedules of the model" % ctx.replay)
        else:
            cases = [cases[i] for i in keep]; meta = [meta[i] for i in keep]
    exe, lib = ctx.build_harness("shared_sched", ["shared_sched.cpp"], variant="tsan")
    env = ctx.occa_env(lib)
    env["TSAN_OPTIONS"] = "report_bugs=0:exitcode=66"     # schedules are imposed: the registry is the observer here
    outs, crashes = run_replayer(ctx, exe, env, cases, timeout=3000, max_restarts=len(cases) + 5)
    crashed = {c["beh"]: c for c in crashes}
    stuck = conform = known_shape = 0
    for i, (sc, x) in enumerate(meta):
        o = outs.get(i)
        replay = [dict(cases[i], scenario=sc, predicted={k: x[k] for k in ("d", "b", "a", "u")})]
        if o is not None and "stuck" in o:
            stuck += 1
            continue
        if o is None or i in crashed and o is None:
            c = crashed.get(i)
            if c is None:
                continue
            if x["d"] >= 2 or x["u"]:
                known_shape += 1
                ctx.mismatch("double-destroy:check-then-delete-outside-lock",
                             "scenario %s: process died (%s) executing a schedule for which the as-implemented model predicts %d destructor runs / use after destruction: %s" % (sc, c["crash"], x["d"], x["sched"]), replay)
            else:
                ctx.mismatch("crash:%s@%s" % (c["crash"], sc), "scenario %s: crash %s in schedule %s" % (sc, c["crash"], x["sched"]), replay)
            continue
        runs = o["destroyed"] + o["anomalies"]
        net = x["net"]
        bytes_obs = o["bytes"] + (OBJ_BYTES if runs >= 1 else 0)
        ok_outcomes = intended[sc]
        # the shared object's own buffer leaves the device's ring when the object is destroyed
        children_obs = o.get("children", 0) + (1 if runs >= 1 else 0)
        if (min(runs, 9), net, children_obs) in ok_outcomes and bytes_obs == net:
            conform += 1
            continue
        if children_obs != x["netch"]:
            ctx.mismatch("lost-reference:device-child-ring@%s" % sc,
                         "scenario %s: the device tracks %d buffers at quiescence, the model says %d; schedule %s" % (sc, children_obs, x["netch"], x["sched"]), replay)
        if runs >= 2:
            if x["d"] >= 2:
                known_shape += 1
                ctx.mismatch("double-destroy:check-then-delete-outside-lock",
                             "scenario %s: the object's destructor ran %d times under schedule %s (as predicted by the as-implemented model; the intended model allows exactly 1)" % (sc, runs, x["sched"]), replay)
            else:
                ctx.mismatch("double-destroy:unpredicted-schedule@%s" % sc,
                             "scenario %s: destructor ran %d times under schedule %s, which even the as-implemented model does not predict" % (sc, runs, x["sched"]), replay)
        elif runs == 0:
            ctx.mismatch("leak@%s" % sc, "scenario %s: object never destroyed although no handle is left, schedule %s" % (sc, x["sched"]), replay)
        if bytes_obs != net:
            ctx.mismatch("miscount@%s" % sc, "scenario %s: memoryAllocated off by %d at quiescence, schedule %s" % (sc, bytes_obs - net, x["sched"]), replay)
    executed = len(meta) - stuck
    if executed == 0:
        raise Broken("no model schedule could be imposed on the implementation (%d stuck)" % stuck)
    ctx.traces_validated = executed
    ctx.cov.update({"schedules_generated": len(meta), "schedules_imposed": executed, "schedules_not_followable": stuck,
                    "schedules_conforming_to_intended": conform, "schedules_showing_known_defect": known_shape})
    # 3. free-running stress under ThreadSanitizer
    sexe, lib = ctx.build_harness("shared_stress", ["shared_stress.cpp"], variant="tsan")
    plans = [(2, 300), (4, 300), (8, 200)] if ctx.tier == "quick" else [(t, 400) for t in (2, 3, 4, 6, 8, 12, 16)] * 3
    logdir = os.path.join(ctx.tmp, "tsanlogs")
    os.makedirs(logdir, exist_ok=True)
    stress_runs = 0
    died = []
    miscounts = []
    for k, (threads, iters) in enumerate(plans):
        env = ctx.occa_env(lib)
        env["TSAN_OPTIONS"] = "log_path=%s/tsan:exitcode=0:halt_on_error=0:history_size=4:second_deadlock_stack=1" % logdir
        outp = os.path.join(ctx.tmp, "stress-%d.json" % k)
        rc, out = sh([sexe, str(threads), str(iters), str(ctx.seed * 100 + k), outp], env=env, timeout=1200)
        stress_runs += 1
        rep = [{"threads": threads, "iterations": iters, "seed": ctx.seed * 100 + k}]
        if rc != 0 or not os.path.exists(outp):
            # the reason is in the sanitizer log (classified below with the other reports); a death with no
            # report at all is a finding of its own
            died.append((threads, rc, out[-400:], rep))
            continue
        res = json.load(open(outp))
        if res.get("phase") == "AC":
            # the process died in the last phase (simultaneous last-handle drops): the reason is in the sanitizer
            # log; what the earlier phases observed was checkpointed
            died.append((threads, rc, out[-400:], rep))
            res["liveMemory"] = res["liveBuffer"] = res["sharedAlive"]
        if res["anomalies"] > 0:
            ctx.mismatch("double-destroy:check-then-delete-outside-lock", "stress %d threads: %d destructor runs on dead objects" % (threads, res["anomalies"]), rep)
        if res["liveMemory"] != res["sharedAlive"] or res["liveBuffer"] != res["sharedAlive"]:
            ctx.mismatch("leak-or-lost-reference:stress", "stress %d threads: live memory objects %d / buffers %d, expected %d" % (threads, res["liveMemory"], res["liveBuffer"], res["sharedAlive"]), rep)
        if res.get("lostChildren", 0) != 0 or res.get("survivors", 0) != 0:
            ctx.mismatch("lost-reference:device-child-ring:stress",
                         "stress %d threads: a shared device lost track of %d buffers created on it concurrently; %d handles survived device.free()" % (threads, res.get("lostChildren", 0), res.get("survivors", 0)), rep)
        if res["bytes"] != res["expected"]:
            miscounts.append((threads, res["bytes"] - res["expected"], rep))
    races = race_signatures(logdir)
    if died and not any(k.startswith(("double-destroy", "tsan:")) for k in races):
        t, rc, out, rep = died[0]
        ctx.mismatch("stress-crash:no-report", "stress run with %d threads died (rc=%s) without a sanitizer report: %s" % (t, rc, out), rep)
    ctx.cov["stress_runs_died"] = len(died)
    for (threads, off, rep) in miscounts:
        # a lost update of bytesAllocated is the visible effect of the unsynchronised counter: when the race
        # detector reported that race in the same batch of runs it is the same finding, otherwise its own
        if "race:bytesAllocated-unsynchronised" in races:
            ctx.mismatch("race:bytesAllocated-unsynchronised", "stress %d threads: memoryAllocated off by %d at quiescence (lost update of the unsynchronised counter, race reported by ThreadSanitizer in the same runs)" % (threads, off), rep)
        else:
            ctx.mismatch("miscount:stress", "stress %d threads: memoryAllocated off by %d at quiescence and no race on the counter was reported" % (threads, off), rep)
    ctx.cov["stress_runs_miscounting"] = len(miscounts)
    for sig, text in sorted(races.items()):
        ctx.mismatch(sig, "ThreadSanitizer: " + " ".join(text.split())[:700], [{"tsan_report": text}])
    ctx.cov.update({"stress_runs": stress_runs, "tsan_report_signatures": sorted(races)})
    ctx.samples = [dict(cases[0], scenario=meta[0][0]), dict(cases[len(cases) // 2], scenario=meta[len(cases) // 2][0])]
    ctx.assumptions += [
        "one shared memory object on a Serial device in the ENABLE_SHARABLE_DEVICE + ThreadSanitizer build; handle kind memory (device/kernel/stream/memoryPool share the same release shape)",
        "yield points sit at the boundaries of the ring critical sections and before the bytesAllocated update; the update itself cannot be split by a yield point, lost updates are left to the race detector",
        "kernel building/running by several threads is exercised only by the stress driver's allocations, not modelled",
    ]
    return ctx.finish(exhaustive=(ctx.tier == "thorough"))
