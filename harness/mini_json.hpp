// mini_json.hpp -- tiny self-contained JSON reader/writer for the harnesses (deliberately
// independent of occa::json, which is itself under test).
#pragma once
#include <cstdio>
#include <cstdlib>
#include <cstring>
#include <map>
#include <memory>
#include <sstream>
#include <stdexcept>
#include <string>
#include <vector>

namespace mj {
struct Value;
typedef std::shared_ptr<Value> P;
struct Value {
  enum Kind { Null, Bool, Num, Str, Arr, Obj } kind = Null;
  bool b = false;
  long long n = 0;
  double d = 0;
  bool isInt = true;
  std::string s;
  std::vector<Value> a;
  std::vector<std::pair<std::string, Value> > o;

  bool has(const std::string &k) const {
    for (auto &kv : o) if (kv.first == k) return true;
    return false;
  }
  const Value &operator[](const std::string &k) const {
    for (auto &kv : o) if (kv.first == k) return kv.second;
    static Value nul;
    return nul;
  }
  const Value &operator[](size_t i) const { return a[i]; }
  size_t size() const { return kind == Arr ? a.size() : o.size(); }
  long long i() const { return isInt ? n : (long long)d; }
  const std::string &str() const { return s; }
  bool isNull() const { return kind == Null; }
};

struct Parser {
  const char *p, *e;
  Parser(const std::string &t) : p(t.data()), e(t.data() + t.size()) {}
  void ws() { while (p < e && (*p == ' ' || *p == '\t' || *p == '\n' || *p == '\r')) ++p; }
  [[noreturn]] void fail(const char *m) { throw std::runtime_error(std::string("mini_json: ") + m); }
  Value parse() {
    ws();
    if (p >= e) fail("eof");
    Value v;
    char c = *p;
    if (c == '{') {
      v.kind = Value::Obj; ++p; ws();
      if (*p == '}') { ++p; return v; }
      while (true) {
        ws();
        Value k = parse();
        if (k.kind != Value::Str) fail("key");
        ws(); if (*p != ':') fail(":"); ++p;
        Value x = parse();
        v.o.emplace_back(k.s, x);
        ws();
        if (*p == ',') { ++p; continue; }
        if (*p == '}') { ++p; return v; }
        fail("obj");
      }
    }
    if (c == '[') {
      v.kind = Value::Arr; ++p; ws();
      if (*p == ']') { ++p; return v; }
      while (true) {
        v.a.push_back(parse());
        ws();
        if (*p == ',') { ++p; continue; }
        if (*p == ']') { ++p; return v; }
        fail("arr");
      }
    }
    if (c == '"') {
      v.kind = Value::Str; ++p;
      while (p < e && *p != '"') {
        if (*p == '\\') {
          ++p;
          switch (*p) {
            case 'n': v.s += '\n'; break; case 't': v.s += '\t'; break;
            case 'r': v.s += '\r'; break; case 'b': v.s += '\b'; break;
            case 'f': v.s += '\f'; break;
            case 'u': {
              unsigned x = 0;
              for (int i = 1; i <= 4; ++i) {
                char h = p[i]; x <<= 4;
                x |= (h >= '0' && h <= '9') ? h - '0' : ((h | 32) - 'a' + 10);
              }
              p += 4;
              if (x < 0x80) v.s += (char)x;         // bytes are carried as \u00XX (latin-1 style)
              else if (x < 0x100) v.s += (char)x;
              else { v.s += (char)(0xE0 | (x >> 12)); v.s += (char)(0x80 | ((x >> 6) & 63)); v.s += (char)(0x80 | (x & 63)); }
              break;
            }
            default: v.s += *p;
          }
          ++p;
        } else v.s += *p++;
      }
      ++p;
      return v;
    }
    if (!strncmp(p, "true", 4)) { p += 4; v.kind = Value::Bool; v.b = true; return v; }
    if (!strncmp(p, "false", 5)) { p += 5; v.kind = Value::Bool; v.b = false; return v; }
    if (!strncmp(p, "null", 4)) { p += 4; return v; }
    {
      const char *s0 = p;
      bool isInt = true;
      if (*p == '-') ++p;
      while (p < e && ((*p >= '0' && *p <= '9') || *p == '.' || *p == 'e' || *p == 'E' || *p == '+' || *p == '-')) {
        if (*p == '.' || *p == 'e' || *p == 'E') isInt = false;
        ++p;
      }
      if (p == s0) fail("value");
      std::string t(s0, p);
      v.kind = Value::Num; v.isInt = isInt;
      if (isInt) v.n = strtoll(t.c_str(), 0, 10); else v.d = strtod(t.c_str(), 0);
      return v;
    }
  }
};
inline Value parse(const std::string &t) { Parser q(t); return q.parse(); }

// bytes >= 0x80 and control bytes are written as \u00XX so that the line stays ASCII
inline std::string quote(const std::string &s) {
  std::string o = "\"";
  char buf[8];
  for (unsigned char c : s) {
    if (c == '"') o += "\\\"";
    else if (c == '\\') o += "\\\\";
    else if (c < 0x20 || c >= 0x7f) { snprintf(buf, sizeof buf, "\\u%04x", c); o += buf; }
    else o += (char)c;
  }
  return o + "\"";
}
}  // namespace mj
