// C30 stress driver: N free-running threads share ONE device (ENABLE_SHARABLE_DEVICE build, TSan)
// and concurrently copy/destroy handles to shared memory objects and allocate/free memory.
// At quiescence it prints the live-object counters (H1) and memoryAllocated(); ThreadSanitizer
// reports go to the log file given by TSAN_OPTIONS=log_path=...  No oracle in here.
//   usage: shared_stress <threads> <iterations> <seed> <out.json>
#include <occa.hpp>
#include <occa/internal/utils/verif.hpp>
#include <occa/internal/core/device.hpp>
#include <pthread.h>
#include <cstdio>
#include <cstdlib>
#include <vector>
#include <atomic>

namespace v = occa::verif;
static occa::device *dev;
static std::vector<occa::memory> shared;   // shared objects; each thread copies/destroys handles to them
static int iterations;
static std::atomic<long> expectedBytes{0};
static pthread_barrier_t barrier;
static int rounds;
static std::vector<occa::memory*> roundHandles;   // one heap handle per thread to the round's object
static occa::device *devC = nullptr;              // phase C: a device that owns no buffer when the round starts

static std::atomic<long> lostChildren{0}, survivors{0};
struct Arg { int id; unsigned seed; };
static const char *outPath = nullptr;
static long baseBytes = 0;
static void checkpoint() {
  FILE *f = fopen(outPath, "w");
  int alive = 0;
  for (occa::memory &m : shared) if (m.isInitialized()) ++alive;
  fprintf(f, "{\"phase\":\"AC\",\"liveMemory\":-1,\"liveBuffer\":-1,\"anomalies\":%ld,\"bytes\":0,\"expected\":0,\"sharedAlive\":%d,\"lostChildren\":%ld,\"survivors\":%ld}\n",
          v::anomalies(), alive, lostChildren.load(), survivors.load());
  fclose(f);
}

static unsigned rnd(unsigned &s) { s = s * 1103515245u + 12345u; return (s >> 16) & 0x7fff; }

static void *work(void *p) {
  Arg *a = (Arg *)p;
  unsigned s = a->seed;
  std::vector<occa::memory> mine;        // private handles (copies of shared objects)
  std::vector<occa::memory> blocks;      // private allocations
  pthread_barrier_wait(&barrier);
  for (int i = 0; i < iterations; ++i) {
    switch (rnd(s) % 5) {
      case 0: mine.push_back(shared[rnd(s) % shared.size()]); break;            // copy a handle
      case 1: if (!mine.empty()) { mine.pop_back(); } break;                    // destroy a handle
      case 2: { long n = 8 * (1 + rnd(s) % 4); blocks.push_back(dev->malloc<char>(n)); expectedBytes += n; break; }
      case 3: if (!blocks.empty()) { expectedBytes -= (long)blocks.back().byte_size(); blocks.back().free(); blocks.pop_back(); } break;
      case 4: if (!mine.empty()) { occa::memory c = mine.back(); mine.push_back(c); } break;   // copy of a copy
    }
  }
  // everything private goes away
  for (occa::memory &m : blocks) { expectedBytes -= (long)m.byte_size(); m.free(); }
  blocks.clear();
  mine.clear();
  // phase C: every thread creates the FIRST buffers of a fresh shared device at the same time; the
  // device must then track all of them (its ring of buffers) and free() must release all of them
  for (int r = 0; r < rounds; ++r) {
    if (a->id == 0) devC = new occa::device({{"mode", "Serial"}});
    pthread_barrier_wait(&barrier);
    occa::memory *pm = new occa::memory(devC->malloc<char>(8));
    pthread_barrier_wait(&barrier);
    if (a->id == 0) {
      const long tracked = (long)devC->getModeDevice()->memoryRing.length();
      if (tracked != (long)roundHandles.size()) lostChildren += (long)roundHandles.size() - tracked;
      devC->free();
    }
    pthread_barrier_wait(&barrier);
    if (pm->isInitialized()) ++survivors;      // a buffer the device lost track of outlives device.free():
    else delete pm;                            // its handle is deliberately leaked, touching it would be a use after free
    pthread_barrier_wait(&barrier);
    if (a->id == 0) { delete devC; devC = nullptr; }
  }
  // checkpoint: phase B below may kill the process (the recorded double destruction), so what phases A
  // and C observed is written out first
  if (a->id == 0) checkpoint();
  pthread_barrier_wait(&barrier);
  // phase B: all handles of one object are destroyed at the same time, one per thread
  for (int r = 0; r < rounds; ++r) {
    pthread_barrier_wait(&barrier);          // thread 0 has set up roundHandles
    delete roundHandles[a->id];
    roundHandles[a->id] = nullptr;
    pthread_barrier_wait(&barrier);
    if (a->id == 0 && r + 1 < rounds) {
      occa::memory x = dev->malloc<char>(32);
      for (size_t t = 0; t < roundHandles.size(); ++t) roundHandles[t] = new occa::memory(x);
    }
  }
  return nullptr;
}

int main(int argc, char **argv) {
  if (argc < 5) { fprintf(stderr, "usage: %s threads iterations seed out\n", argv[0]); return 2; }
  const int nthreads = atoi(argv[1]);
  iterations = atoi(argv[2]);
  const unsigned seed = (unsigned)atoi(argv[3]);
  outPath = argv[4];
  long result[8];
  {
    occa::device device({{"mode", "Serial"}});
    dev = &device;
    v::reset();
    const int nshared = 3;
    for (int i = 0; i < nshared; ++i) shared.push_back(device.malloc<char>(16));
    const long base = (long)device.memoryAllocated();
    pthread_barrier_init(&barrier, nullptr, nthreads);
    rounds = iterations / 10 + 1;
    roundHandles.assign(nthreads, nullptr);
    {
      occa::memory x = device.malloc<char>(32);
      for (int t = 0; t < nthreads; ++t) roundHandles[t] = new occa::memory(x);
    }
    std::vector<pthread_t> th(nthreads);
    std::vector<Arg> args(nthreads);
    for (int t = 0; t < nthreads; ++t) {
      args[t].id = t;
      args[t].seed = seed * 7919u + (unsigned)t * 104729u + 1u;
      pthread_create(&th[t], nullptr, work, &args[t]);
    }
    for (int t = 0; t < nthreads; ++t) pthread_join(th[t], nullptr);
    // quiescent: only the `shared` handles remain
    result[0] = v::live(v::kMemory);            // must be nshared
    result[1] = v::live(v::kBuffer);            // must be nshared
    result[2] = v::anomalies();                 // must be 0
    result[3] = (long)device.memoryAllocated() - base;   // must be 0
    result[4] = expectedBytes.load();           // 0 by construction
    int alive = 0;
    for (occa::memory &m : shared) if (m.isInitialized()) ++alive;
    result[5] = alive;                          // must be nshared (nobody freed them)
    result[6] = lostChildren.load();            // must be 0
    result[7] = survivors.load();               // must be 0
    shared.clear();
  }
  FILE *f = fopen(argv[4], "w");
  fprintf(f, "{\"phase\":\"ACB\",\"liveMemory\":%ld,\"liveBuffer\":%ld,\"anomalies\":%ld,\"bytes\":%ld,\"expected\":%ld,\"sharedAlive\":%ld,\"lostChildren\":%ld,\"survivors\":%ld}\n",
          result[0], result[1], result[2], result[3], result[4], result[5], result[6], result[7]);
  fclose(f);
  return 0;
}
