// C06 replayer (key tier): computes, through the library, the cache key and the cache directory
// of every configuration it is given.  One input line = one batch:
//   {"mode":"Serial"|"OpenMP", "items":[{"props":"<occa json text>", "src":"<kernel source>", "dev":"<occa json text>"}...]}
// every item gets its own device handle created from {"mode": mode} + dev (device-level kernel defaults)
// "@FN:a@" / "@FN:b@" inside the props text are replaced by the hashes of two real captured
// occa::function objects (the value a `functions` entry holds).
// Output line: {"beh":i,"keys":[full hash...],"dirs":[cache dir name...],"err":[0|1...]}
// The key is the one device::buildKernelFromString computes (device::setupKernelInfo).
#include "replay_core.hpp"
#include <occa.hpp>
#include <occa/internal/io.hpp>

static std::string replaceAll(std::string s, const std::string &a, const std::string &b) {
  size_t p = 0;
  while ((p = s.find(a, p)) != std::string::npos) { s.replace(p, a.size(), b); p += b.size(); }
  return s;
}

int main(int argc, char **argv) {
  rc::init(argc, argv);
  auto fa = OCCA_FUNCTION([](const int x) -> int { return 10 * x + 1; });
  auto fb = OCCA_FUNCTION([](const int x) -> int { return 10 * x + 2; });
  const std::string ha = fa.hash().getFullString(), hb = fb.hash().getFullString();
  const std::string cachePath = occa::io::cachePath();
  std::string line;
  while (rc::next(line)) {
    mj::Value b = mj::parse(line);
    const std::string mode = b["mode"].str();
    const mj::Value &items = b["items"];
    std::string keys = "[", dirs = "[", errs = "[";
    for (size_t j = 0; j < items.size(); ++j) {
      rc::step(j);
      std::string ptxt = replaceAll(replaceAll(items[j]["props"].str(), "@FN:a@", ha), "@FN:b@", hb);
      std::string key, dir;
      int err = 0;
      try {
        std::string dtxt = items[j].has("dev") ? replaceAll(replaceAll(items[j]["dev"].str(), "@FN:a@", ha), "@FN:b@", hb) : "{}";
        occa::json devProps = occa::json::parse(dtxt);
        devProps["mode"] = mode;
        occa::device dev(devProps);
        if (dev.mode() != mode) throw std::runtime_error("mode not available: " + mode);
        occa::json props = occa::json::parse(ptxt);
        occa::json kernelProps;
        occa::hash_t h;
        dev.setupKernelInfo(props, occa::hash(items[j]["src"].str()), kernelProps, h);
        key = h.getFullString();
        dir = occa::io::hashDir(h);
        if (dir.compare(0, cachePath.size(), cachePath) == 0) dir = dir.substr(cachePath.size());
      } catch (std::exception &e) { err = 1; key = e.what(); }
      if (j) { keys += ","; dirs += ","; errs += ","; }
      keys += mj::quote(key); dirs += mj::quote(dir); errs += std::to_string(err);
    }
    rc::emit("{\"beh\":" + std::to_string(rc::cur_beh) + ",\"mode\":" + mj::quote(mode) +
             ",\"fa\":" + mj::quote(ha) + ",\"keys\":" + keys + "],\"dirs\":" + dirs + "],\"err\":" + errs + "]}");
  }
  return 0;
}
