// C27 replayer: executes HashT.tla behaviours on real occa::hash_t objects and reports,
// after every step, what the public API says about every object.  No model in here: action
// names are mapped to calls, results are printed.
//   input line : {"bytes": {"s1": "...", ...}, "regs": ["r1","r2"], "steps": [{a,r,x,y,s}, ...]}
//   output line: {"beh": i, "obs": [ {"F":[full string per object], "I":[isInitialized],
//                  "C":[getString() of a fresh copy], "RT":[fromString(full)==object && same full],
//                  "EQ":[[a==b ...]], "ret": "<getString result>" | null, "alt": "<full string of the same
//                  combination spelled the other way>" | "", "ep": 0|1, "err": 0|1}, ...]}
#include "replay_core.hpp"
#include <occa/utils/hash.hpp>
#include <sstream>

using occa::hash_t;

static std::string q(const std::string &s) { return mj::quote(s); }

// UBSan calls this weak hook for every report; with halt_on_error=1 the process dies right after,
// so the report is attributed to the behaviour/step being executed (the sanitizer death callback
// of replay_core.hpp is not reached on this path).
static bool ubsan_halts = false;
extern "C" void __ubsan_on_report(void) { if (ubsan_halts) rc::crash_line("UBSAN"); }

int main(int argc, char **argv) {
  rc::init(argc, argv);
  ubsan_halts = getenv("UBSAN_OPTIONS") && strstr(getenv("UBSAN_OPTIONS"), "halt_on_error=1");
  std::string line;
  while (rc::next(line)) {
    mj::Value b = mj::parse(line);
    const mj::Value &steps = b["steps"];
    const mj::Value &regNames = b["regs"];
    const mj::Value &bytes = b["bytes"];
    const size_t R = regNames.size();
    std::vector<hash_t> regs(R);          // default constructed objects, alive for the behaviour
    auto idx = [&](const std::string &n) -> size_t {
      for (size_t i = 0; i < R; ++i) if (regNames[i].str() == n) return i;
      fprintf(stderr, "unknown register %s\n", n.c_str()); exit(2);
    };
    std::string out = "{\"beh\":" + std::to_string(rc::cur_beh) + ",\"obs\":[";
    for (size_t j = 0; j < steps.size(); ++j) {
      rc::step(j);
      const mj::Value &s = steps[j];
      const std::string &a = s["a"].str();
      std::string ret; bool hasRet = false; int ep = 1; std::string err;
      std::string alt;   // the same combination through the other documented spelling (xor-type steps)
      try {
        hash_t &r = regs[idx(s["r"].str())];
        if (a == "fromBytes") {
          const std::string &by = bytes[s["s"].str()].str();
          hash_t h1 = occa::hash((const void*) by.data(), (occa::udim_t) by.size());
          hash_t h2 = occa::hash(by);
          ep = (h1 == h2) && !(h1 != h2) && h1.getFullString() == h2.getFullString();
          if (by.find('\0') == std::string::npos) {
            hash_t h3 = occa::hash(by.c_str());
            ep = ep && (h1 == h3) && h1.getFullString() == h3.getFullString();
          }
          r = ((rc::cur_beh + j) & 1) ? h1 : h2;
        } else if (a == "assign") {
          r = regs[idx(s["x"].str())];
        } else if (a == "xor") {
          alt = (regs[idx(s["y"].str())] ^ regs[idx(s["x"].str())]).getFullString();   // commuted
          r = regs[idx(s["x"].str())] ^ regs[idx(s["y"].str())];
        } else if (a == "xorEq") {
          alt = (r ^ regs[idx(s["x"].str())]).getFullString();                       // a ^= b  vs  a ^ b
          r ^= regs[idx(s["x"].str())];
        } else if (a == "xorBytes") {
          const std::string by = bytes[s["s"].str()].str();
          alt = (regs[idx(s["x"].str())] ^ occa::hash(by)).getFullString();          // x ^ t  vs  x ^ hash(t)
          r = regs[idx(s["x"].str())] ^ by;
        } else if (a == "fromString") {
          r = hash_t::fromString(regs[idx(s["x"].str())].getFullString());
        } else if (a == "clear") {
          r.clear();
        } else if (a == "getString") {
          hasRet = true;
          switch ((rc::cur_beh + j) % 3) {
            case 0: ret = r.getString(); break;
            case 1: ret = (std::string) r; break;
            default: { std::stringstream ss; ss << r; ret = ss.str(); }
          }
        } else { fprintf(stderr, "unknown action %s\n", a.c_str()); return 2; }
      } catch (std::exception &e) { err = e.what(); }
      // observation of every object (nothing here touches the objects' caches)
      std::string F = "[", I = "[", C = "[", RT = "[", EQ = "[";
      for (size_t i = 0; i < R; ++i) {
        const hash_t &h = regs[i];
        const std::string full = h.getFullString();
        hash_t copy(h);
        hash_t back = hash_t::fromString(full);
        const bool rt = (back == h) && !(back != h) && back.getFullString() == full;
        if (i) { F += ","; I += ","; C += ","; RT += ","; EQ += ","; }
        F += q(full); I += h.isInitialized() ? "1" : "0"; C += q(copy.getString()); RT += rt ? "1" : "0";
        EQ += "[";
        for (size_t k = 0; k < R; ++k) {
          const bool e1 = (h == regs[k]), e2 = !(h != regs[k]);
          EQ += std::string(k ? "," : "") + (e1 == e2 ? (e1 ? "1" : "0") : "2");
        }
        EQ += "]";
      }
      if (j) out += ",";
      out += "{\"F\":" + F + "],\"I\":" + I + "],\"C\":" + C + "],\"RT\":" + RT + "],\"EQ\":" + EQ + "]" +
             ",\"ret\":" + (hasRet ? q(ret) : std::string("null")) + ",\"alt\":" + q(alt) + ",\"ep\":" + std::to_string(ep) +
             ",\"err\":" + (err.empty() ? "0" : "1") + "}";
    }
    rc::emit(out + "]}");
  }
  return 0;
}
