// C23 replayer: executes FunctionalMachine.tla behaviours on occa::array<int>, occa::range and
// occa::forLoop (public API only) on ONE device (env C23_MODE = Serial | OpenMP) and prints, per
// step, what the implementation returned.  It contains no model: each action name maps to one
// API call with one fixed lambda from the catalogue of spec/lang/Functional.tla (run-time scalars
// travel through the occa::scope so that a lambda costs one JIT compile per tile setting).
//   in : {"steps":[{"a":<action>,"args":{...}}, ...]}          (one line per behaviour)
//   out: {"beh":i,"obs":[{"v":<int | [ints] | [[tuple],count]...>,"err":"" }, ...]}
#include "replay_core.hpp"
#include <occa.hpp>
#include <occa/functional.hpp>
#include <occa/loops.hpp>
#include <memory>
#include <sys/time.h>
#include <sstream>
#include <vector>

using int2 = occa::int2;
using int3 = occa::int3;
typedef occa::array<int> iarray;

static occa::device dev;

static std::string jnum(double d) {
  char b[64];
  if (d == (double)(long long)d) snprintf(b, sizeof b, "%lld", (long long)d);
  else snprintf(b, sizeof b, "%.17g", d);
  return b;
}
template <class T>
static std::string jarr(const occa::array<T> &a) {
  std::vector<T> h(a.length());
  if (a.length()) a.copyTo(h.data());
  std::string s = "[";
  for (size_t i = 0; i < h.size(); ++i) { if (i) s += ","; s += jnum((double)h[i]); }
  return s + "]";
}
static std::vector<int> ivec(const mj::Value &v) {
  std::vector<int> r;
  for (size_t i = 0; i < v.size(); ++i) r.push_back((int)v[i].i());
  return r;
}
// an array with the given contents; the empty array is a zero-count slice (device::malloc(0) is a null memory)
static iarray make(const std::vector<int> &h) {
  if (h.empty()) {
    int z = 0;
    return iarray(dev.malloc<int>(1, &z)).slice(0, 0);
  }
  return iarray(dev.malloc<int>((occa::dim_t)h.size(), h.data()));
}
static iarray zeros(int n) { return make(std::vector<int>(n, 0)); }

struct Obj {
  iarray a;
  std::unique_ptr<occa::range> r;
};

// ------------------------------------------------------------------ arrays
static std::string arrayOp(Obj &o, const std::string &act, const mj::Value &g) {
  iarray &a = o.a;
  const std::string f = g["f"].str();
  const int k = (int)g["k"].i();
  occa::scope sk({{"k", k}});
  if (act == "tile") { a.setTileSize((int)g["ts"].i(), (int)g["ti"].i()); return "0"; }
  if (act == "every" || act == "some" || act == "findIndex") {
#define PRED_CALL(FN)                                                                                 \
    (act == "every" ? (long)a.every(FN) : act == "some" ? (long)a.some(FN) : (long)a.findIndex(FN))
    if (f == "PA1") return std::to_string(PRED_CALL(OCCA_FUNCTION(sk, [=](const int &v) -> bool { return v >= k; })));
    if (f == "PA2") return std::to_string(PRED_CALL(OCCA_FUNCTION(sk, [=](const int &v, const int i) -> bool { return (v - i) < k; })));
    if (f == "PA3") return std::to_string(PRED_CALL(OCCA_FUNCTION(sk, [=](const int &v, const int i, const int *vs) -> bool { return vs[i] == k; })));
  }
  if (act == "map") {
    if (f == "MA1") return jarr(a.map<int>(OCCA_FUNCTION(sk, [=](const int &v) -> int { return 2 * v + k; })));
    if (f == "MA2") return jarr(a.map<int>(OCCA_FUNCTION(sk, [=](const int &v, const int i) -> int { return v * k + i; })));
    if (f == "MA3") return jarr(a.map<int>(OCCA_FUNCTION(sk, [=](const int &v, const int i, const int *vs) -> int { return vs[0] * k + v - i; })));
    if (f == "MD2") return jarr(a.map<double>(OCCA_FUNCTION(sk, [=](const int &v, const int i) -> double { return (double) (v * k + i); })));
  }
  if (act == "mapToSelf") {
    if (f == "MA1") { a.mapTo<int>(a, OCCA_FUNCTION(sk, [=](const int &v) -> int { return 2 * v + k; })); return jarr(a); }
    if (f == "MA2") { a.mapTo<int>(a, OCCA_FUNCTION(sk, [=](const int &v, const int i) -> int { return v * k + i; })); return jarr(a); }
  }
  if (act == "mapToOther") {
    iarray out = zeros((int)g["olen"].i());
    if (f == "MA1") { a.mapTo<int>(out, OCCA_FUNCTION(sk, [=](const int &v) -> int { return 2 * v + k; })); return jarr(out); }
    if (f == "MA2") { a.mapTo<int>(out, OCCA_FUNCTION(sk, [=](const int &v, const int i) -> int { return v * k + i; })); return jarr(out); }
    if (f == "MA3") { a.mapTo<int>(out, OCCA_FUNCTION(sk, [=](const int &v, const int i, const int *vs) -> int { return vs[0] * k + v - i; })); return jarr(out); }
  }
  if (act == "forEach") {
    iarray out = zeros((int)a.length());
    occa::scope so({{"out", out}, {"k", k}});
    a.forEach(OCCA_FUNCTION(so, [=](const int &v, const int i) -> void { out[i] += 100 + v * k; }));
    return jarr(out);
  }
  if (act == "reduce") {
    const std::string t2 = g["t2"].str();
    const bool hi = g["hi"].b;
    const int init = (int)g["init"].i();
    using occa::reductionType;
    if (f == "RS1" && t2 == "int") return jnum(a.reduce<int>(reductionType::sum, OCCA_FUNCTION([=](const int &acc, const int &v) -> int { return acc + v; })));
    if (f == "RS1" && t2 == "long") return jnum((double)a.reduce<long>(reductionType::sum, OCCA_FUNCTION([=](const long &acc, const int &v) -> long { return acc + v; })));
    if (f == "RS1" && t2 == "double") return jnum(a.reduce<double>(reductionType::sum, OCCA_FUNCTION([=](const double &acc, const int &v) -> double { return acc + v; })));
    if (f == "RS2") return jnum(a.reduce<int>(reductionType::sum, OCCA_FUNCTION(sk, [=](const int &acc, const int &v, const int i) -> int { return acc + v * k + i; })));
    if (f == "RS3") return jnum(a.reduce<int>(reductionType::sum, OCCA_FUNCTION([=](const int &acc, const int &v, const int i, const int *vs) -> int { return acc + vs[i] * vs[0]; })));
    if (f == "RM1") return jnum(a.reduce<int>(reductionType::multiply, OCCA_FUNCTION([=](const int &acc, const int &v) -> int { return acc * v; })));
    if (f == "RO1") return jnum(a.reduce<int>(reductionType::bitOr, OCCA_FUNCTION([=](const int &acc, const int &v) -> int { return acc | (v & 7); })));
    if (f == "RA1") return jnum(a.reduce<int>(reductionType::bitAnd, OCCA_FUNCTION([=](const int &acc, const int &v) -> int { return acc & (v & 7); })));
    if (f == "RX1") return jnum(a.reduce<int>(reductionType::bitXor, OCCA_FUNCTION([=](const int &acc, const int &v) -> int { return acc ^ (v & 7); })));
    if (f == "RBO") return jnum(a.reduce<bool>(reductionType::boolOr, OCCA_FUNCTION(sk, [=](const bool &acc, const int &v) -> bool { return acc || (v >= k); })));
    if (f == "RBA") return jnum(a.reduce<bool>(reductionType::boolAnd, OCCA_FUNCTION([=](const bool &acc, const int &v) -> bool { return acc && v; })));
    if (f == "RMIN") return jnum(a.reduce<int>(reductionType::min, OCCA_FUNCTION([=](const int &acc, const int &v) -> int { return acc < v ? acc : v; })));
    if (f == "RMAX" && t2 == "int") return jnum(a.reduce<int>(reductionType::max, OCCA_FUNCTION([=](const int &acc, const int &v) -> int { return acc > v ? acc : v; })));
    if (f == "RMAX" && t2 == "long") return jnum((double)a.reduce<long>(reductionType::max, OCCA_FUNCTION([=](const long &acc, const int &v) -> long { return acc > v ? acc : v; })));
    if (f == "RMNC" && hi) return jnum(a.reduce<int>(reductionType::min, init, OCCA_FUNCTION(sk, [=](const int &acc, const int &v, const int i) -> int { const int fv = v * k + i; return acc < fv ? acc : fv; })));
    if (f == "RMXC" && hi) return jnum(a.reduce<int>(reductionType::max, init, OCCA_FUNCTION(sk, [=](const int &acc, const int &v, const int i) -> int { const int fv = v * k - i; return acc > fv ? acc : fv; })));
  }
  if (act == "min") return jnum(a.min());
  if (act == "max") return jnum(a.max());
  if (act == "dot") { iarray w = make(ivec(g["w"])); return jnum(a.dotProduct(w)); }
  if (act == "indexOf") return jnum((double)a.indexOf((int)g["x"].i()));
  if (act == "lastIndexOf") return jnum((double)a.lastIndexOf((int)g["x"].i()));
  if (act == "includes") return jnum(a.includes((int)g["x"].i()));
  if (act == "reverse") return jarr(a.reverse());
  if (act == "clamp") return jarr(a.clamp((int)g["lo"].i(), (int)g["hi"].i()));
  if (act == "shiftLeft") return jarr(a.shiftLeft((int)g["o"].i(), (int)g["e"].i()));
  if (act == "shiftRight") return jarr(a.shiftRight((int)g["o"].i(), (int)g["e"].i()));
  if (act == "fill") { a.fill((int)g["x"].i()); return jarr(a); }
  if (act == "slice") { a = a.slice((occa::dim_t)g["off"].i(), (occa::dim_t)g["cnt"].i()); return jarr(a); }
  if (act == "concat") { a = a.concat(a); return jarr(a); }
  throw std::runtime_error("harness: unknown array action " + act + "/" + f);
}

// ------------------------------------------------------------------ ranges
static std::string rangeOp(Obj &o, const std::string &act, const mj::Value &g) {
  occa::range &r = *o.r;
  const std::string f = g["f"].str();
  const int k = (int)g["k"].i();
  occa::scope sk({{"k", k}});
  if (act == "tile") { r.setTileSize((int)g["ts"].i(), (int)g["ti"].i()); return "0"; }
  if (act == "r.every" || act == "r.some" || act == "r.findIndex") {
#define RPRED_CALL(FN)                                                                                \
    (act == "r.every" ? (long)r.every(FN) : act == "r.some" ? (long)r.some(FN) : (long)r.findIndex(FN))
    if (f == "RP1") return std::to_string(RPRED_CALL(OCCA_FUNCTION(sk, [=](const int v) -> bool { return v >= k; })));
    if (f == "RP2") return std::to_string(RPRED_CALL(OCCA_FUNCTION(sk, [=](const int v) -> bool { return v == k; })));
  }
  if (act == "r.map") {
    if (f == "RM1") return jarr(r.map<int>(OCCA_FUNCTION(sk, [=](const int v) -> int { return 2 * v + k; })));
    if (f == "RMD") return jarr(r.map<double>(OCCA_FUNCTION(sk, [=](const int v) -> double { return (double) (v * k); })));
  }
  if (act == "r.mapTo") {
    iarray out = zeros((int)g["olen"].i());
    r.mapTo<int>(out, OCCA_FUNCTION(sk, [=](const int v) -> int { return 2 * v + k; }));
    return jarr(out);
  }
  if (act == "r.toArray") return jarr(r.toArray());
  if (act == "r.forEach") {
    // out[v - lo] += 100 + v * k over a window [-32, 32); reported as [[v, out], ...] for the touched cells
    const int lo = -32, W = 64;
    iarray out = zeros(W + 1);
    occa::scope so({{"out", out}, {"k", k}, {"lo", lo}, {"W", W}});
    r.forEach(OCCA_FUNCTION(so, [=](const int v) -> void {
      const int c = v - lo;
      const int cell = ((c < 0) || (c >= W)) ? W : c;
      out[cell] += 100 + v * k;
    }));
    std::vector<int> h(W + 1);
    out.copyTo(h.data());
    std::string s = "[";
    bool first = true;
    for (int c = 0; c <= W; ++c) if (h[c]) {
      if (!first) s += ",";
      first = false;
      s += "[" + std::to_string(c == W ? 99999 : c + lo) + "," + std::to_string(h[c]) + "]";
    }
    return s + "]";
  }
  if (act == "r.reduce") {
    using occa::reductionType;
    if (f == "RS1") return jnum(r.reduce<int>(reductionType::sum, OCCA_FUNCTION([=](const int &acc, const int v) -> int { return acc + v; })));
    if (f == "RM1") return jnum(r.reduce<int>(reductionType::multiply, OCCA_FUNCTION([=](const int &acc, const int v) -> int { return acc * v; })));
    if (f == "RMIN") return jnum(r.reduce<int>(reductionType::min, OCCA_FUNCTION([=](const int &acc, const int v) -> int { return acc < v ? acc : v; })));
    if (f == "RMAX") return jnum(r.reduce<int>(reductionType::max, OCCA_FUNCTION([=](const int &acc, const int v) -> int { return acc > v ? acc : v; })));
    if (f == "RBO") return jnum(r.reduce<bool>(reductionType::boolOr, OCCA_FUNCTION(sk, [=](const bool &acc, const int v) -> bool { return acc || (v >= k); })));
    if (f == "RO1") return jnum(r.reduce<int>(reductionType::bitOr, OCCA_FUNCTION([=](const int &acc, const int v) -> int { return acc | (v & 7); })));
    if (f == "RX1") return jnum(r.reduce<int>(reductionType::bitXor, OCCA_FUNCTION([=](const int &acc, const int v) -> int { return acc ^ (v & 7); })));
  }
  throw std::runtime_error("harness: unknown range action " + act + "/" + f);
}

// ------------------------------------------------------------------ forLoop
static occa::iteration iterOf(const mj::Value &it, std::vector<iarray> &keep) {
  const std::string k = it["k"].str();
  if (k == "dim") return occa::iteration((int)it["n"].i());
  if (k == "range") return occa::iteration(occa::range(dev, (occa::dim_t)it["s"].i(), (occa::dim_t)it["e"].i(), (occa::dim_t)it["st"].i()));
  if (k == "array") { keep.push_back(make(ivec(it["v"]))); return occa::iteration(keep.back()); }
  throw std::runtime_error("harness: unknown iteration kind " + k);
}

// one cell per index tuple: base-W digits (component - lo); anything outside [lo, lo+W) goes to cell `ncell`
static std::string loopOp(const mj::Value &g) {
  const mj::Value &jo = g["outer"], &ji = g["inner"];
  const int no = (int)jo.size(), ni = (int)ji.size();
  const bool tiled = g["tiled"].i() != 0;
  const int lo = (int)g["lo"].i(), W = (int)g["W"].i();
  long nc = 1;
  for (int d = 0; d < no + ni; ++d) nc *= W;
  const int ncell = (int)nc;
  iarray cnt = zeros(ncell + 1);
  occa::scope sc({{"cnt", cnt}, {"lo", lo}, {"W", W}, {"ncell", ncell}});
  std::vector<iarray> keep;
  std::vector<occa::iteration> O, I;
  for (int d = 0; d < no; ++d) {
    occa::iteration it = iterOf(jo[d], keep);
    if (tiled) it = occa::tileIteration(it, (int)jo[d]["t"].i());
    O.push_back(it);
  }
  for (int d = 0; d < ni; ++d) I.push_back(iterOf(ji[d], keep));
  occa::forLoop fl(dev);
  // (the lambdas are spelled out: OCCA_FUNCTION stringifies them for the JIT)
  if (tiled || ni > 0) {
    // the loops provide @outer and @inner: the body is the counter update
    if (ni == 0 && no == 1) fl.outer(O[0]).run(OCCA_FUNCTION(sc, [=](const int o) -> void {
        const int c0 = o - lo;
        const int bad = (c0 < 0) || (c0 >= W);
        const int idx = bad ? ncell : c0;
        OKL("@atomic"); cnt[idx] += 1; }));
    else if (ni == 0 && no == 2) fl.outer(O[0], O[1]).run(OCCA_FUNCTION(sc, [=](const int2 o) -> void {
        const int c0 = o.x - lo; const int c1 = o.y - lo;
        const int bad = (c0 < 0) || (c0 >= W) || (c1 < 0) || (c1 >= W);
        const int idx = bad ? ncell : (c0 * W + c1);
        OKL("@atomic"); cnt[idx] += 1; }));
    else if (ni == 0 && no == 3) fl.outer(O[0], O[1], O[2]).run(OCCA_FUNCTION(sc, [=](const int3 o) -> void {
        const int c0 = o.x - lo; const int c1 = o.y - lo; const int c2 = o.z - lo;
        const int bad = (c0 < 0) || (c0 >= W) || (c1 < 0) || (c1 >= W) || (c2 < 0) || (c2 >= W);
        const int idx = bad ? ncell : ((c0 * W + c1) * W + c2);
        OKL("@atomic"); cnt[idx] += 1; }));
    else if (no == 1 && ni == 1) fl.outer(O[0]).inner(I[0]).run(OCCA_FUNCTION(sc, [=](const int o, const int i) -> void {
        const int c0 = o - lo; const int c1 = i - lo;
        const int bad = (c0 < 0) || (c0 >= W) || (c1 < 0) || (c1 >= W);
        const int idx = bad ? ncell : (c0 * W + c1);
        OKL("@atomic"); cnt[idx] += 1; }));
    else if (no == 1 && ni == 2) fl.outer(O[0]).inner(I[0], I[1]).run(OCCA_FUNCTION(sc, [=](const int o, const int2 i) -> void {
        const int c0 = o - lo; const int c1 = i.x - lo; const int c2 = i.y - lo;
        const int bad = (c0 < 0) || (c0 >= W) || (c1 < 0) || (c1 >= W) || (c2 < 0) || (c2 >= W);
        const int idx = bad ? ncell : ((c0 * W + c1) * W + c2);
        OKL("@atomic"); cnt[idx] += 1; }));
    else if (no == 1 && ni == 3) fl.outer(O[0]).inner(I[0], I[1], I[2]).run(OCCA_FUNCTION(sc, [=](const int o, const int3 i) -> void {
        const int c0 = o - lo; const int c1 = i.x - lo; const int c2 = i.y - lo; const int c3 = i.z - lo;
        const int bad = (c0 < 0) || (c0 >= W) || (c1 < 0) || (c1 >= W) || (c2 < 0) || (c2 >= W) || (c3 < 0) || (c3 >= W);
        const int idx = bad ? ncell : (((c0 * W + c1) * W + c2) * W + c3);
        OKL("@atomic"); cnt[idx] += 1; }));
    else if (no == 2 && ni == 1) fl.outer(O[0], O[1]).inner(I[0]).run(OCCA_FUNCTION(sc, [=](const int2 o, const int i) -> void {
        const int c0 = o.x - lo; const int c1 = o.y - lo; const int c2 = i - lo;
        const int bad = (c0 < 0) || (c0 >= W) || (c1 < 0) || (c1 >= W) || (c2 < 0) || (c2 >= W);
        const int idx = bad ? ncell : ((c0 * W + c1) * W + c2);
        OKL("@atomic"); cnt[idx] += 1; }));
    else if (no == 2 && ni == 2) fl.outer(O[0], O[1]).inner(I[0], I[1]).run(OCCA_FUNCTION(sc, [=](const int2 o, const int2 i) -> void {
        const int c0 = o.x - lo; const int c1 = o.y - lo; const int c2 = i.x - lo; const int c3 = i.y - lo;
        const int bad = (c0 < 0) || (c0 >= W) || (c1 < 0) || (c1 >= W) || (c2 < 0) || (c2 >= W) || (c3 < 0) || (c3 >= W);
        const int idx = bad ? ncell : (((c0 * W + c1) * W + c2) * W + c3);
        OKL("@atomic"); cnt[idx] += 1; }));
    else if (no == 2 && ni == 3) fl.outer(O[0], O[1]).inner(I[0], I[1], I[2]).run(OCCA_FUNCTION(sc, [=](const int2 o, const int3 i) -> void {
        const int c0 = o.x - lo; const int c1 = o.y - lo; const int c2 = i.x - lo; const int c3 = i.y - lo; const int c4 = i.z - lo;
        const int bad = (c0 < 0) || (c0 >= W) || (c1 < 0) || (c1 >= W) || (c2 < 0) || (c2 >= W) || (c3 < 0) || (c3 >= W) || (c4 < 0) || (c4 >= W);
        const int idx = bad ? ncell : ((((c0 * W + c1) * W + c2) * W + c3) * W + c4);
        OKL("@atomic"); cnt[idx] += 1; }));
    else if (no == 3 && ni == 2) fl.outer(O[0], O[1], O[2]).inner(I[0], I[1]).run(OCCA_FUNCTION(sc, [=](const int3 o, const int2 i) -> void {
        const int c0 = o.x - lo; const int c1 = o.y - lo; const int c2 = o.z - lo; const int c3 = i.x - lo; const int c4 = i.y - lo;
        const int bad = (c0 < 0) || (c0 >= W) || (c1 < 0) || (c1 >= W) || (c2 < 0) || (c2 >= W) || (c3 < 0) || (c3 >= W) || (c4 < 0) || (c4 >= W);
        const int idx = bad ? ncell : ((((c0 * W + c1) * W + c2) * W + c3) * W + c4);
        OKL("@atomic"); cnt[idx] += 1; }));
    else if (no == 3 && ni == 1) fl.outer(O[0], O[1], O[2]).inner(I[0]).run(OCCA_FUNCTION(sc, [=](const int3 o, const int i) -> void {
        const int c0 = o.x - lo; const int c1 = o.y - lo; const int c2 = o.z - lo; const int c3 = i - lo;
        const int bad = (c0 < 0) || (c0 >= W) || (c1 < 0) || (c1 >= W) || (c2 < 0) || (c2 >= W) || (c3 < 0) || (c3 >= W);
        const int idx = bad ? ncell : (((c0 * W + c1) * W + c2) * W + c3);
        OKL("@atomic"); cnt[idx] += 1; }));
    else if (no == 3 && ni == 3) fl.outer(O[0], O[1], O[2]).inner(I[0], I[1], I[2]).run(OCCA_FUNCTION(sc, [=](const int3 o, const int3 i) -> void {
        const int c0 = o.x - lo; const int c1 = o.y - lo; const int c2 = o.z - lo;
        const int c3 = i.x - lo; const int c4 = i.y - lo; const int c5 = i.z - lo;
        const int bad = (c0 < 0) || (c0 >= W) || (c1 < 0) || (c1 >= W) || (c2 < 0) || (c2 >= W) || (c3 < 0) || (c3 >= W) || (c4 < 0) || (c4 >= W) || (c5 < 0) || (c5 >= W);
        const int idx = bad ? ncell : (((((c0 * W + c1) * W + c2) * W + c3) * W + c4) * W + c5);
        OKL("@atomic"); cnt[idx] += 1; }));
    else throw std::runtime_error("harness: unsupported loop shape");
  } else {
    // outer loops only: the body brings its own @inner loop (as tests/src/loops/forLoop.cpp does)
    if (no == 1) fl.outer(O[0]).run(OCCA_FUNCTION(sc, [=](const int o) -> void {
        OKL("@inner"); for (int j = 0; j < 1; ++j) {
          const int c0 = o - lo;
          const int bad = (c0 < 0) || (c0 >= W);
          const int idx = bad ? ncell : c0;
          OKL("@atomic"); cnt[idx] += 1; } }));
    else if (no == 2) fl.outer(O[0], O[1]).run(OCCA_FUNCTION(sc, [=](const int2 o) -> void {
        OKL("@inner"); for (int j = 0; j < 1; ++j) {
          const int c0 = o.x - lo; const int c1 = o.y - lo;
          const int bad = (c0 < 0) || (c0 >= W) || (c1 < 0) || (c1 >= W);
          const int idx = bad ? ncell : (c0 * W + c1);
          OKL("@atomic"); cnt[idx] += 1; } }));
    else if (no == 3) fl.outer(O[0], O[1], O[2]).run(OCCA_FUNCTION(sc, [=](const int3 o) -> void {
        OKL("@inner"); for (int j = 0; j < 1; ++j) {
          const int c0 = o.x - lo; const int c1 = o.y - lo; const int c2 = o.z - lo;
          const int bad = (c0 < 0) || (c0 >= W) || (c1 < 0) || (c1 >= W) || (c2 < 0) || (c2 >= W);
          const int idx = bad ? ncell : ((c0 * W + c1) * W + c2);
          OKL("@atomic"); cnt[idx] += 1; } }));
    else throw std::runtime_error("harness: unsupported loop shape");
  }
  std::vector<int> h(ncell + 1);
  cnt.copyTo(h.data());
  std::string s = "{\"cells\":[";
  bool first = true;
  const int nd = no + ni;
  for (int c = 0; c < ncell; ++c) if (h[c]) {
    if (!first) s += ",";
    first = false;
    std::vector<int> t(nd);
    int x = c;
    for (int d = nd - 1; d >= 0; --d) { t[d] = x % W + lo; x /= W; }
    s += "[[";
    for (int d = 0; d < nd; ++d) { if (d) s += ","; s += std::to_string(t[d]); }
    s += "]," + std::to_string(h[c]) + "]";
  }
  return s + "],\"outside\":" + std::to_string(h[ncell]) + "}";
}

// Watchdogs.  A step may spend minutes of WALL time in the JIT compiler on a loaded machine (child
// processes), so the wall-clock alarm of replay_core is set very generously; a runaway loop in the
// implementation burns CPU time of THIS process, which ITIMER_PROF measures independently of the load.
static void on_cpu_limit(int) { rc::crash_line("TIMEOUT"); _exit(70); }
static void cpu_watchdog(unsigned seconds) {
  struct itimerval t;
  memset(&t, 0, sizeof t);
  t.it_value.tv_sec = seconds;
  setitimer(ITIMER_PROF, &t, 0);
}

int main(int argc, char **argv) {
  rc::init(argc, argv);
  {
    struct sigaction sa; memset(&sa, 0, sizeof sa); sa.sa_handler = on_cpu_limit;
    sigaction(SIGPROF, &sa, 0);
  }
  const unsigned stepCpu = getenv("C23_STEP_CPU") ? (unsigned)atoi(getenv("C23_STEP_CPU")) : 90;
  const char *mode = getenv("C23_MODE") ? getenv("C23_MODE") : "Serial";
  const unsigned stepTimeout = getenv("C23_STEP_TIMEOUT") ? (unsigned)atoi(getenv("C23_STEP_TIMEOUT")) : 3600;
  dev = occa::device({{"mode", std::string(mode)}});
  std::string line;
  while (rc::next(line)) {
    mj::Value b = mj::parse(line);
    const mj::Value &steps = b["steps"];
    Obj o;
    std::string out = "{\"beh\":" + std::to_string(rc::cur_beh) + ",\"obs\":[";
    for (size_t j = 0; j < steps.size(); ++j) {
      rc::step(j);
      rc::watchdog(stepTimeout);
      cpu_watchdog(stepCpu);
      const mj::Value &s = steps[j];
      const std::string &a = s["a"].str();
      const mj::Value &g = s["args"];
      std::string v = "null", err;
      try {
        if (a == "new") {
          o.a = make(ivec(g["vals"]));
          o.a.setTileSize((int)g["ts"].i(), (int)g["ti"].i());
          v = std::to_string((long)o.a.length());
        } else if (a == "range") {
          const int ctor = (int)g["ctor"].i();
          const occa::dim_t x = g["a"].i(), y = g["b"].i(), z = g["c"].i();
          o.r.reset(ctor == 1 ? new occa::range(dev, y) : ctor == 2 ? new occa::range(dev, x, y) : new occa::range(dev, x, y, z));
          o.r->setTileSize((int)g["ts"].i(), (int)g["ti"].i());
          v = std::to_string((long)o.r->length());
        } else if (a == "loop") {
          v = loopOp(g);
        } else if (o.r) {
          v = rangeOp(o, a, g);
        } else {
          v = arrayOp(o, a, g);
        }
      } catch (std::exception &e) {
        err = e.what();
        if (err.compare(0, 8, "harness:") == 0) { fprintf(stderr, "%s\n", err.c_str()); return 2; }
        if (err.size() > 300) err = err.substr(0, 300);
      }
      rc::watchdog(0);
      cpu_watchdog(0);
      if (j) out += ",";
      out += "{\"v\":" + v + ",\"err\":" + mj::quote(err) + "}";
    }
    rc::emit(out + "]}");
  }
  return 0;
}
