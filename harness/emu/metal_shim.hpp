// metal_shim.hpp -- host emulation of the Metal Shading Language subset that OCCA's metal
// translator emits.  launch model (src/occa/internal/modes/metal/kernel.cpp -> api::metal::function_t::run):
// dispatchThreadgroups(outer) threadsPerThreadgroup(inner); the kernel receives
//   uint3 [[threadgroup_position_in_grid]] and uint3 [[thread_position_in_threadgroup]]   (32-bit unsigned)
// as its two trailing parameters; scalar arguments arrive as `constant T &` buffers.
#pragma once
#include "emu_core.hpp"
#include <cmath>
#include <cstdint>

namespace metal {
struct uint3 { unsigned int x, y, z; };
typedef unsigned int uint;
enum class mem_flags { mem_none = 0, mem_device = 1, mem_threadgroup = 2, mem_texture = 4 };
inline void threadgroup_barrier(mem_flags) { emu::barrier(); }
}  // namespace metal

namespace emu {
namespace metalemu {
inline thread_local int next_pos = 0;   // which of the two uint3 parameters is being materialised
template <class Call>
inline void launch(const launch_t &l, const kernel_attrs_t &a, status_t &st, Call call) {
  (void) a;
  limits_t lim;
  lim.max_grid[0] = lim.max_grid[1] = lim.max_grid[2] = 0xffffffffULL;
  lim.max_block[0] = lim.max_block[1] = lim.max_block[2] = 1024; lim.max_items = 1024;
  if (!check_limits("metal", l.outer, l.inner, lim, st)) return;
  run_grid(l.outer, l.inner, call, st);
}
}  // namespace metalemu
template <class Call>
inline void backend_launch(const launch_t &l, const kernel_attrs_t &a, status_t &st, Call call) { metalemu::launch(l, a, st, call); }
}  // namespace emu
#include "emu_glue.hpp"
namespace emu {
namespace glue {
// trailing uint3 parameters: first = threadgroup position in grid, second = thread position in threadgroup.
// C++ leaves the evaluation order of arguments open, so the position is derived from the parameter
// index: (n-2) is the group position, (n-1) the thread position.
template <> struct param< ::metal::uint3, void> {
  static const bool from_args = false;
  static ::metal::uint3 get(void **, int, int i, int n) {
    const item_t &c = self();
    if (i == n - 2) return ::metal::uint3{(unsigned) c.group[0], (unsigned) c.group[1], (unsigned) c.group[2]};
    return ::metal::uint3{(unsigned) c.local[0], (unsigned) c.local[1], (unsigned) c.local[2]};
  }
};
}  // namespace glue
}  // namespace emu

// ---- the device language (macros last) ----------------------------------------------------
#define kernel
#define device
#define constant const
#define threadgroup static
#define thread
#ifndef restrict
#define restrict __restrict__   // OpenCL C / MSL spelling of @restrict
#endif
