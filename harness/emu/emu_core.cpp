// emu_core.cpp -- the launch engine (see emu_core.hpp).  Linked into the host executable (-rdynamic).
#include "emu_core.hpp"

#include <condition_variable>
#include <cstdlib>
#include <cstring>
#include <map>
#include <mutex>
#include <thread>
#include <vector>

namespace emu {

config_t &config() {
  static config_t c = [] {
    config_t x;
    x.parallel = false;
    x.max_groups = 1ULL << 16;
    x.max_items = 256ULL;
    const char *s = getenv("EMU_SCHED");
    if (s && !strcmp(s, "parallel")) x.parallel = true;
    if (const char *g = getenv("EMU_MAX_GROUPS")) x.max_groups = strtoull(g, 0, 10);
    if (const char *g = getenv("EMU_MAX_ITEMS")) x.max_items = strtoull(g, 0, 10);
    return x;
  }();
  return c;
}

// ---- the running group -------------------------------------------------------------------
struct group_t {
  std::mutex m;
  std::condition_variable cv;
  unsigned n = 0;
  bool serial = true;
  unsigned turn = 0;                 // serial schedule: index of the item holding the baton
  std::vector<unsigned char> st;     // 0 runnable, 1 waiting at the barrier, 2 finished
  unsigned arrived = 0, finished = 0;
  unsigned long gen = 0;
  unsigned long long divergent = 0;
  std::map<std::pair<const void *, long>, void *> local_mem;   // dynamic group-local memory
  std::vector<void *> local_allocs;
};

static thread_local item_t cur = {{0, 0, 0}, {0, 0, 0}, {1, 1, 1}, {1, 1, 1}, 0, nullptr};
const item_t &self() { return cur; }

static unsigned next_runnable(group_t &g, unsigned from) {
  for (unsigned k = from; k < g.n; ++k) if (g.st[k] == 0) return k;
  for (unsigned k = 0; k < from && k < g.n; ++k) if (g.st[k] == 0) return k;
  return g.n;  // nobody
}
static void open_barrier(group_t &g) {   // lock held
  if (g.finished) ++g.divergent;
  for (unsigned k = 0; k < g.n; ++k) if (g.st[k] == 1) g.st[k] = 0;
  g.arrived = 0;
  ++g.gen;
  g.turn = next_runnable(g, 0);
  g.cv.notify_all();
}

void barrier() {
  group_t *g = cur.grp;
  if (!g || g->n <= 1) return;
  std::unique_lock<std::mutex> l(g->m);
  const unsigned me = cur.lin;
  const unsigned long mygen = g->gen;
  g->st[me] = 1;
  ++g->arrived;
  if (g->arrived == g->n - g->finished) {
    open_barrier(*g);
  } else if (g->serial) {
    g->turn = next_runnable(*g, me + 1);
    g->cv.notify_all();
  }
  if (g->serial) g->cv.wait(l, [&] { return g->gen != mygen && g->turn == me; });
  else g->cv.wait(l, [&] { return g->gen != mygen; });
}

static void item_begin(group_t &g, unsigned me) {
  if (!g.serial) return;
  std::unique_lock<std::mutex> l(g.m);
  g.cv.wait(l, [&] { return g.turn == me; });
}
static void item_end(group_t &g, unsigned me) {
  std::unique_lock<std::mutex> l(g.m);
  g.st[me] = 2;
  ++g.finished;
  if (g.arrived && g.arrived == g.n - g.finished) {
    open_barrier(g);
  } else if (g.serial) {
    g.turn = next_runnable(g, me + 1);
    g.cv.notify_all();
  }
}

void *group_local(const void *key, long line, size_t bytes) {
  group_t *g = cur.grp;
  if (!g) return calloc(1, bytes ? bytes : 1);   // outside a launch (should not happen)
  std::unique_lock<std::mutex> l(g->m);
  auto k = std::make_pair(key, line);
  auto it = g->local_mem.find(k);
  if (it != g->local_mem.end()) return it->second;
  void *p = calloc(1, bytes ? bytes : 1);
  g->local_mem[k] = p;
  g->local_allocs.push_back(p);
  return p;
}

void run_grid_raw(const size_t ngroups[3], const size_t lsize[3], void (*fn)(void *), void *ctx, status_t &st) {
  const config_t &cfg = config();
  unsigned long long G = 1, L = 1;
  bool overflow = false;
  for (int d = 0; d < 3; ++d) {
    if (ngroups[d] && G > (~0ULL) / ngroups[d]) overflow = true;
    G *= ngroups[d];
    if (lsize[d] && L > (~0ULL) / lsize[d]) overflow = true;
    L *= lsize[d];
  }
  st.groups = overflow ? ~0ULL : G;
  st.items = overflow ? ~0ULL : L;
  if (overflow || G > cfg.max_groups || L > cfg.max_items) {
    st.code = 2;
    snprintf(st.msg, sizeof st.msg, "emulator cap exceeded: groups=(%zu,%zu,%zu) items=(%zu,%zu,%zu)",
             ngroups[0], ngroups[1], ngroups[2], lsize[0], lsize[1], lsize[2]);
    return;
  }
  if (G == 0 || L == 0) return;   // nothing to run
  const unsigned n = (unsigned) L;
  for (size_t gz = 0; gz < ngroups[2]; ++gz)
    for (size_t gy = 0; gy < ngroups[1]; ++gy)
      for (size_t gx = 0; gx < ngroups[0]; ++gx) {
        group_t g;
        g.n = n;
        g.serial = !cfg.parallel;
        g.st.assign(n, 0);
        auto run_item = [&](unsigned lin, size_t lx, size_t ly, size_t lz) {
          item_t it;
          it.group[0] = gx; it.group[1] = gy; it.group[2] = gz;
          it.local[0] = lx; it.local[1] = ly; it.local[2] = lz;
          for (int d = 0; d < 3; ++d) { it.ngroups[d] = ngroups[d]; it.lsize[d] = lsize[d]; }
          it.lin = lin;
          it.grp = &g;
          cur = it;
          item_begin(g, lin);
          fn(ctx);
          item_end(g, lin);
          cur.grp = nullptr;
        };
        if (n == 1) {
          item_t saved = cur;
          run_item(0, 0, 0, 0);
          cur = saved;
        } else {
          std::vector<std::thread> ts;
          ts.reserve(n);
          unsigned lin = 0;
          for (size_t lz = 0; lz < lsize[2]; ++lz)
            for (size_t ly = 0; ly < lsize[1]; ++ly)
              for (size_t lx = 0; lx < lsize[0]; ++lx, ++lin)
                ts.emplace_back(run_item, lin, lx, ly, lz);
          for (auto &t : ts) t.join();
        }
        st.divergent_barriers += g.divergent;
        for (void *p : g.local_allocs) free(p);
      }
}

bool check_limits(const char *backend, const size_t ngroups[3], const size_t lsize[3],
                  const limits_t &lim, status_t &st) {
  unsigned long long L = 1;
  for (int d = 0; d < 3; ++d) {
    if (ngroups[d] == 0 || lsize[d] == 0 || ngroups[d] > lim.max_grid[d] || lsize[d] > lim.max_block[d]) {
      st.code = 1;
      snprintf(st.msg, sizeof st.msg, "%s: invalid launch configuration groups=(%zu,%zu,%zu) items=(%zu,%zu,%zu)",
               backend, ngroups[0], ngroups[1], ngroups[2], lsize[0], lsize[1], lsize[2]);
      return false;
    }
    L *= lsize[d];
  }
  if (L > lim.max_items) {
    st.code = 1;
    snprintf(st.msg, sizeof st.msg, "%s: %llu work-items per group exceed the limit %llu", backend, L, lim.max_items);
    return false;
  }
  return true;
}

}  // namespace emu
