// opencl_shim.hpp -- host emulation of the OpenCL C subset that OCCA's opencl translator emits.
//   launch model (src/occa/internal/modes/opencl/kernel.cpp, clEnqueueNDRangeKernel): global size =
//   outer*inner per dimension, local size = inner; get_group_id/get_local_id/get_global_id return size_t.
//   reqd_work_group_size(a,b,c) must equal the local size exactly (CL_INVALID_WORK_GROUP_SIZE otherwise).
#pragma once
#include "emu_core.hpp"
#include <cmath>
#include <cstdint>

inline size_t get_group_id(unsigned d) { return d < 3 ? emu::self().group[d] : 0; }
inline size_t get_local_id(unsigned d) { return d < 3 ? emu::self().local[d] : 0; }
inline size_t get_local_size(unsigned d) { return d < 3 ? emu::self().lsize[d] : 1; }
inline size_t get_num_groups(unsigned d) { return d < 3 ? emu::self().ngroups[d] : 1; }
inline size_t get_global_id(unsigned d) { return d < 3 ? emu::self().group[d] * emu::self().lsize[d] + emu::self().local[d] : 0; }
inline size_t get_global_size(unsigned d) { return d < 3 ? emu::self().ngroups[d] * emu::self().lsize[d] : 1; }
inline unsigned get_work_dim() { return 3; }
enum { CLK_LOCAL_MEM_FENCE = 1, CLK_GLOBAL_MEM_FENCE = 2 };
inline void barrier(int) { emu::barrier(); }
inline void mem_fence(int) {}

template <class T, class U> inline T atomic_add(volatile T *p, U v) { return __atomic_fetch_add((T *) p, (T) v, __ATOMIC_SEQ_CST); }
template <class T, class U> inline T atomic_sub(volatile T *p, U v) { return __atomic_fetch_sub((T *) p, (T) v, __ATOMIC_SEQ_CST); }
template <class T> inline T atomic_inc(volatile T *p) { return __atomic_fetch_add((T *) p, (T) 1, __ATOMIC_SEQ_CST); }
template <class T> inline T atomic_dec(volatile T *p) { return __atomic_fetch_sub((T *) p, (T) 1, __ATOMIC_SEQ_CST); }

namespace emu {
namespace opencl {
template <class Call>
inline void launch(const launch_t &l, const kernel_attrs_t &a, status_t &st, Call call) {
  limits_t lim;
  lim.max_grid[0] = lim.max_grid[1] = lim.max_grid[2] = ~0ULL >> 1;     // global sizes are size_t
  lim.max_block[0] = lim.max_block[1] = lim.max_block[2] = 1024; lim.max_items = 1024;
  if (!check_limits("opencl", l.outer, l.inner, lim, st)) return;
  if (a.reqd[0] >= 0 && ((size_t) a.reqd[0] != l.inner[0] || (size_t) a.reqd[1] != l.inner[1] || (size_t) a.reqd[2] != l.inner[2])) {
    st.code = 1;
    snprintf(st.msg, sizeof st.msg, "opencl: local size (%zu,%zu,%zu) differs from reqd_work_group_size(%ld,%ld,%ld)",
             l.inner[0], l.inner[1], l.inner[2], a.reqd[0], a.reqd[1], a.reqd[2]);
    return;
  }
  run_grid(l.outer, l.inner, call, st);
}
}  // namespace opencl
template <class Call>
inline void backend_launch(const launch_t &l, const kernel_attrs_t &a, status_t &st, Call call) { opencl::launch(l, a, st, call); }
}  // namespace emu
#include "emu_glue.hpp"

// ---- the device language (macros last) ----------------------------------------------------
#define __kernel
#define __global
#define __local static
#define __constant const
#define __private
#define __read_only
#define __write_only
typedef unsigned int uint;
typedef unsigned long ulong;
typedef unsigned short ushort;
typedef unsigned char uchar;
#ifndef restrict
#define restrict __restrict__   // OpenCL C / MSL spelling of @restrict
#endif
