#include "sycl_shim.hpp"
