// stub: the HIP device language is provided by cuda_shim.hpp
