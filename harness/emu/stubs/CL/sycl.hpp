// stub of <CL/sycl.hpp>: the SYCL subset lives in harness/emu/sycl_shim.hpp
#include "sycl_shim.hpp"
