// emu_glue_end.hpp -- included right after the translated device source: removes the
// device-language macros that are ordinary identifiers elsewhere.
#pragma once
#ifdef kernel
#undef kernel
#endif
#ifdef device
#undef device
#endif
#ifdef constant
#undef constant
#endif
#ifdef threadgroup
#undef threadgroup
#endif
#ifdef thread
#undef thread
#endif
