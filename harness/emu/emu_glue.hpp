// emu_glue.hpp -- included by every <backend>_shim.hpp AFTER it defined
//   template <class Call> void emu::backend_launch(const launch_t&, const kernel_attrs_t&, status_t&, Call)
// and BEFORE it defines the device-language macros.  The generated glue translation unit is
//   #include "<backend>_shim.hpp"
//   #include "<translated device source, unmodified>"
//   EMU_KERNEL_TRAMP(f) ...  emu_kernel_table[] = { EMU_KERNEL_ENTRY(f, ...) ... }
// It provides the trampolines that call a device function the way the backend's launch API does:
// every user argument is passed as `void*` pointing at the argument's value (cuLaunchKernel,
// clSetKernelArg, setBytes/setBuffer, sys::runFunction), and the table `emu_kernel_table` that
// the host side (emu_host.hpp) reads with dlsym.
//
// Nothing from OCCA is included: the device translation unit is independent of libocca.
#pragma once
#include <type_traits>
#include <utility>

namespace emu {
namespace glue {
// how to materialise parameter number I (of N) of type A: by default from args[I]
template <class A, class Enable = void> struct param {
  static const bool from_args = true;
  typedef typename std::remove_cv<typename std::remove_reference<A>::type>::type V;
  static V &get(void **args, int i, int pos, int n) { (void) pos; (void) n; return *static_cast<V *>(args[i]); }
};

template <class... A> struct count_user;
template <> struct count_user<> { static const int value = 0; };
template <class A0, class... A> struct count_user<A0, A...> {
  static const int value = (param<A0>::from_args ? 1 : 0) + count_user<A...>::value;
};
// index into args[] of parameter number I = number of user parameters before it
template <size_t I, class... A> struct arg_index;
template <size_t I> struct arg_index<I> { static const int value = 0; };
template <size_t I, class A0, class... A> struct arg_index<I, A0, A...> {
  static const int value = (I == 0) ? 0 : ((param<A0>::from_args ? 1 : 0) + arg_index<(I == 0 ? 0 : I - 1), A...>::value);
};

// get(args, i, pos, n): i = index into args[] (user parameters), pos = position in the parameter list, n = #parameters
template <class... A, size_t... I>
inline void invoke(void (*f)(A...), void **args, std::index_sequence<I...>) {
  f(param<A>::get(args, arg_index<I, A...>::value, (int) I, (int) sizeof...(A))...);
}

template <class... A>
inline void tramp_impl(void (*f)(A...), void **args, int argc, const launch_t *l, const kernel_attrs_t *a, status_t *st) {
  if (argc != count_user<A...>::value) {
    st->code = 1;
    snprintf(st->msg, sizeof st->msg, "argument count mismatch: device function takes %d, launch passed %d",
             count_user<A...>::value, argc);
    return;
  }
  ::emu::backend_launch(*l, *a, *st, [&] { invoke(f, args, std::index_sequence_for<A...>()); });
}
template <class... A> constexpr int user_argc(void (*)(A...)) { return count_user<A...>::value; }
}  // namespace glue
}  // namespace emu

#define EMU_KERNEL_TRAMP(fn)                                                                         \
  static void emu_tramp_##fn(void **args, int argc, const ::emu::launch_t *l,                        \
                             const ::emu::kernel_attrs_t *a, ::emu::status_t *st) {                  \
    ::emu::glue::tramp_impl(&fn, args, argc, l, a, st);                                              \
  }
#define EMU_KERNEL_ENTRY(fn, maxthreads, r0, r1, r2)                                                 \
  { #fn, &emu_tramp_##fn, ::emu::glue::user_argc(&fn), { maxthreads, { r0, r1, r2 } } },
