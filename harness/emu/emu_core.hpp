// emu_core.hpp -- launch engine of the emulation layer: declarations (no dependency on OCCA).
//
// The engine executes a "grid" the way the documented launch models of CUDA/HIP/OpenCL/Metal/SYCL
// describe it: work-groups one after another (x fastest, then y, then z), the work-items of
// one group as REAL threads that share the group's local memory and meet at a REAL barrier.
//
// Two schedules for the items of a group (EMU_SCHED environment variable, or emu::config()):
//   serial   (default) items are real threads but only one holds the baton at a time: item 0
//            runs up to its next barrier (or its end), then item 1, ...; when every live item
//            has arrived the barrier opens and the baton goes back to the lowest item.
//            Deterministic, so un-synchronised "+=" into global memory (what OpenCL/Metal
//            get for @atomic) cannot lose updates and results are reproducible.
//   parallel items run concurrently (std::thread) and meet at a condition-variable barrier.
//
// The implementation (emu_core.cpp) is linked into the HOST executable, which must be linked with
// -rdynamic so that the emulated modules (shared objects) resolve these symbols from it.
// This header is deliberately light (it is compiled into every device translation unit) and must be
// included BEFORE the device-language macros of a shim.
#pragma once
#include <cstddef>
#include <cstdio>

namespace emu {

// what the trampoline reports back to the host side (plain C layout)
struct status_t {
  int code;                  // 0 = executed, 1 = launch rejected by the backend's documented limits,
                             // 2 = valid for the backend but larger than the emulator's cap (not executed)
  char msg[240];
  unsigned long long groups; // number of work-groups requested
  unsigned long long items;  // work-items per group requested
  unsigned long long divergent_barriers; // barriers that opened while an item of the group had already exited
};

struct launch_t {            // dims exactly as the OCCA run time hands them to the backend API
  size_t outer[3];
  size_t inner[3];
  int outer_dims, inner_dims;
};

struct limits_t {            // documented limits of the backend (defaults are CUDA's)
  unsigned long long max_grid[3]  = {2147483647ULL, 65535ULL, 65535ULL};
  unsigned long long max_block[3] = {1024ULL, 1024ULL, 64ULL};
  unsigned long long max_items    = 1024ULL;
};

struct config_t {
  bool parallel;                   // schedule
  unsigned long long max_groups;   // emulator caps (code 2 when exceeded); defaults 65536 / 256
  unsigned long long max_items;
};
config_t &config();

struct group_t;
struct item_t {              // coordinates of the work-item executed by the calling thread
  size_t group[3];
  size_t local[3];
  size_t ngroups[3];
  size_t lsize[3];
  unsigned lin;              // linear index of the item inside its group
  group_t *grp;
};
const item_t &self();        // the calling thread's work-item

// work-group barrier (__syncthreads, barrier(), threadgroup_barrier, item.barrier)
void barrier();

// group-local memory obtained at run time (one zero-initialised block per (key,line) and group)
void *group_local(const void *key, long line, size_t bytes);

// Run ngroups x lsize invocations of fn(ctx); item coordinates through emu::self().
// Only the emulator's own caps are applied here; documented backend limits: check_limits().
void run_grid_raw(const size_t ngroups[3], const size_t lsize[3], void (*fn)(void *), void *ctx, status_t &st);
template <class F>
inline void run_grid(const size_t ngroups[3], const size_t lsize[3], F body, status_t &st) {
  run_grid_raw(ngroups, lsize, [](void *p) { (*static_cast<F *>(p))(); }, &body, st);
}

// documented limits: returns false (and fills st, code 1) when the real API would refuse the launch
bool check_limits(const char *backend, const size_t ngroups[3], const size_t lsize[3],
                  const limits_t &lim, status_t &st);

// atomic floating-point add without <mutex>/<atomic> (compare-exchange on the representation)
template <class T> inline T atomic_fadd(T *p, T v) {
  if (sizeof(T) == 4) {
    unsigned int o = __atomic_load_n((unsigned int *) p, __ATOMIC_SEQ_CST), n;
    T of, nf;
    do { __builtin_memcpy(&of, &o, 4); nf = of + v; __builtin_memcpy(&n, &nf, 4); }
    while (!__atomic_compare_exchange_n((unsigned int *) p, &o, n, false, __ATOMIC_SEQ_CST, __ATOMIC_SEQ_CST));
    return of;
  } else {
    unsigned long long o = __atomic_load_n((unsigned long long *) p, __ATOMIC_SEQ_CST), n;
    T of, nf;
    do { __builtin_memcpy(&of, &o, 8); nf = of + v; __builtin_memcpy(&n, &nf, 8); }
    while (!__atomic_compare_exchange_n((unsigned long long *) p, &o, n, false, __ATOMIC_SEQ_CST, __ATOMIC_SEQ_CST));
    return of;
  }
}

// ---- per-kernel entry of a module (filled by EMU_KERNEL_ENTRY in emu_glue.hpp) ----------------
struct kernel_attrs_t {        // attributes the translator attached to the kernel (parsed from the source)
  long max_threads;            // __launch_bounds__(n): n, else -1
  long reqd[3];                // reqd_work_group_size(a,b,c), else -1
};
typedef void (*tramp_t)(void **args, int argc, const launch_t *l, const kernel_attrs_t *a, status_t *st);
struct entry_t {
  const char *name;
  tramp_t tramp;
  int argc;                    // number of user arguments the device function takes
  kernel_attrs_t attrs;
};

}  // namespace emu
