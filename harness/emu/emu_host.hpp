// emu_host.hpp -- host side of the emulation layer (links against libocca, internal headers).
//
//   emu::Module m(path_to_module_so, hostDevice);        // dlopen, read emu_kernel_table
//   emu::RunResult r = m.run("kernelName", {arg0, arg1, ...});   // occa::kernelArg values; memories
//                                                              // must be occa::memory of hostDevice (Serial)
//
// run() does what occa::launchedModeKernel_t::launcherRun + serial::kernel::run do: it calls the
// *generated launcher* `extern "C" void kernelName(occa::modeKernel_t **deviceKernels, args...)`
// through occa::sys::runFunction; the launcher computes occa::dim outer/inner, builds an
// occa::kernel on deviceKernels[k] and runs it; deviceKernels[k] are emu::devkernel objects whose
// run() hands the dims and the argument pointers to the module's trampoline, which executes the
// *generated device function* under the backend's launch model (emu_core.hpp + <backend>_shim.hpp).
#pragma once
#include <dlfcn.h>
#include <map>
#include <stdexcept>
#include <string>
#include <vector>

#include <occa.hpp>
#include <occa/internal/core/device.hpp>
#include <occa/internal/core/kernel.hpp>
#include <occa/internal/core/memory.hpp>
#include <occa/internal/utils/sys.hpp>

#include "emu_core.hpp"

namespace emu {

struct launch_record {
  std::string kernel;          // device function name
  size_t outer[3], inner[3];
  int outer_dims, inner_dims;
  status_t st;
};

struct RunResult {
  std::vector<launch_record> launches;   // one per device-kernel launch the launcher performed
  bool ok() const { for (auto &l : launches) if (l.st.code) return false; return true; }
};

class devkernel : public occa::modeKernel_t {
 public:
  const entry_t *entry;
  std::vector<launch_record> *log;
  devkernel(occa::modeDevice_t *dev, const entry_t *e, std::vector<launch_record> *log_)
      : occa::modeKernel_t(dev, e->name, "", occa::json()), entry(e), log(log_) {
    // as launchedModeDevice_t::buildKernel does for device kernels
    dev->removeKernelRef(this);
    dontUseRefs();
    properties["type_validation"] = false;
  }
  ~devkernel() {}
  int maxDims() const { return 3; }
  occa::dim maxOuterDims() const { return occa::dim(-1, -1, -1); }
  occa::dim maxInnerDims() const { return occa::dim(-1, -1, -1); }
  const occa::lang::kernelMetadata_t &getMetadata() const { return metadata; }
  void run() const {
    launch_record rec;
    rec.kernel = entry->name;
    launch_t l;
    for (int d = 0; d < 3; ++d) {
      l.outer[d] = rec.outer[d] = (size_t) outerDims[d];
      l.inner[d] = rec.inner[d] = (size_t) innerDims[d];
    }
    l.outer_dims = rec.outer_dims = outerDims.dims;
    l.inner_dims = rec.inner_dims = innerDims.dims;
    memset(&rec.st, 0, sizeof rec.st);
    // every argument by address of its value (cuLaunchKernel / clSetKernelArg convention)
    const int n = (int) arguments.size();
    std::vector<void *> ptrs(n ? n : 1), vals(n ? n : 1);
    for (int i = 0; i < n; ++i) {
      const occa::kernelArgData &a = arguments[i];
      if (a.modeMemory || a.value.isPointer()) {
        vals[i] = a.ptr();            // the (host) address the memory object stands for
        ptrs[i] = &vals[i];
      } else {
        ptrs[i] = a.ptr();            // address of the scalar
      }
    }
    entry->tramp(&ptrs[0], n, &l, &entry->attrs, &rec.st);
    log->push_back(rec);
  }
};

class Module {
 public:
  void *handle;
  occa::device device;
  std::map<std::string, const entry_t *> entries;
  std::map<std::string, std::vector<occa::modeKernel_t *> > devKernels;  // by launcher name
  std::vector<launch_record> log;

  Module(const std::string &path, occa::device dev) : handle(0), device(dev) {
    handle = dlopen(path.c_str(), RTLD_NOW | RTLD_LOCAL);
    if (!handle) throw std::runtime_error(std::string("dlopen: ") + dlerror());
    const entry_t *tab = (const entry_t *) dlsym(handle, "emu_kernel_table");
    if (!tab) throw std::runtime_error("module has no emu_kernel_table");
    for (; tab->name; ++tab) entries[tab->name] = tab;
  }
  ~Module() {
    for (auto &kv : devKernels) for (auto *k : kv.second) delete k;
    // the module stays mapped (GNU_UNIQUE symbols make dlclose a no-op anyway)
  }
  bool has(const std::string &name) const { return dlsym(handle, name.c_str()) != 0; }

  RunResult run(const std::string &name, const std::vector<occa::kernelArg> &args) {
    occa::functionPtr_t fn = (occa::functionPtr_t) dlsym(handle, name.c_str());
    if (!fn) throw std::runtime_error("no launcher named " + name);
    std::vector<occa::modeKernel_t *> &dk = devKernels[name];
    if (dk.empty()) {
      for (int i = 0;; ++i) {
        auto it = entries.find("_occa_" + name + "_" + std::to_string(i));
        if (it == entries.end()) break;
        dk.push_back(new devkernel(device.getModeDevice(), it->second, &log));
      }
      if (dk.empty()) throw std::runtime_error("no device kernels for " + name);
    }
    // launchedModeKernel_t::launcherRun
    std::vector<occa::kernelArgData> arguments;
    for (const occa::kernelArg &a : args)
      for (int i = 0; i < a.size(); ++i) arguments.push_back(a[i]);
    occa::kernelArg launcherArgs(&(dk[0]));
    for (const occa::kernelArgData &a : arguments) {
      if (a.modeMemory) launcherArgs.add((void *) a.modeMemory);
      else launcherArgs.add(a);
    }
    for (auto *k : dk) k->arguments = arguments;
    // serial::kernel::run
    const int n = (int) launcherArgs.args.size();
    std::vector<void *> vArgs(n);
    for (int i = 0; i < n; ++i) vArgs[i] = launcherArgs.args[i].ptr();
    log.clear();
    occa::sys::runFunction(fn, n, &vArgs[0]);
    RunResult r;
    r.launches = log;
    return r;
  }
};

}  // namespace emu
