// cuda_shim.hpp -- host emulation of the CUDA / HIP device language subset that OCCA's cuda and hip
// translators emit (force-included before the *unmodified* translated device source).
//   launch model: grid = OCCA outer dims, block = OCCA inner dims (cuLaunchKernel / hipModuleLaunchKernel
//   in src/occa/internal/modes/{cuda,hip}/kernel.cpp: outerDims.x,y,z , innerDims.x,y,z);
//   blockIdx/threadIdx/blockDim/gridDim are `unsigned int` triples as in the CUDA programming guide.
#pragma once
#include "emu_core.hpp"
#include <cmath>
#include <cstdint>
#include <type_traits>

struct emu_uint3 { unsigned int x, y, z; };
struct emu_dim3 { unsigned int x = 1, y = 1, z = 1; };
inline thread_local emu_uint3 threadIdx, blockIdx;
inline thread_local emu_dim3 blockDim, gridDim;

inline const int warpSize = 32;

inline void __syncthreads() { emu::barrier(); }
inline void __syncwarp(unsigned = 0xffffffffu) {}
inline void __threadfence() {}
inline void __threadfence_block() {}

// atomics: under the serial schedule plain code would do; use real atomics so that the parallel
// schedule is right too
template <class T, class U> inline T atomicAdd(T *p, U v) {
  if constexpr (std::is_floating_point<T>::value) {
    return emu::atomic_fadd(p, (T) v);
  } else return __atomic_fetch_add(p, (T) v, __ATOMIC_SEQ_CST);
}
template <class T, class U> inline T atomicSub(T *p, U v) {
  if constexpr (std::is_floating_point<T>::value) {
    return emu::atomic_fadd(p, (T) -v);
  } else return __atomic_fetch_sub(p, (T) v, __ATOMIC_SEQ_CST);
}
template <class T, class U> inline T atomicExch(T *p, U v) { T o; T n = (T) v; __atomic_exchange(p, &n, &o, __ATOMIC_SEQ_CST); return o; }
template <class T, class U> inline T atomicAnd(T *p, U v) { return __atomic_fetch_and(p, (T) v, __ATOMIC_SEQ_CST); }
template <class T, class U> inline T atomicOr(T *p, U v) { return __atomic_fetch_or(p, (T) v, __ATOMIC_SEQ_CST); }
template <class T, class U> inline T atomicXor(T *p, U v) { return __atomic_fetch_xor(p, (T) v, __ATOMIC_SEQ_CST); }
template <class T, class U> inline T atomicMin(T *p, U v) {
  T o = __atomic_load_n(p, __ATOMIC_SEQ_CST);
  while ((T) v < o && !__atomic_compare_exchange_n(p, &o, (T) v, false, __ATOMIC_SEQ_CST, __ATOMIC_SEQ_CST)) {}
  return o;
}
template <class T, class U> inline T atomicMax(T *p, U v) {
  T o = __atomic_load_n(p, __ATOMIC_SEQ_CST);
  while ((T) v > o && !__atomic_compare_exchange_n(p, &o, (T) v, false, __ATOMIC_SEQ_CST, __ATOMIC_SEQ_CST)) {}
  return o;
}
template <class T, class U, class V> inline T atomicCAS(T *p, U cmp, V v) {
  T e = (T) cmp; __atomic_compare_exchange_n(p, &e, (T) v, false, __ATOMIC_SEQ_CST, __ATOMIC_SEQ_CST); return e;
}
inline unsigned atomicInc(unsigned *p, unsigned lim) {
  unsigned o = __atomic_load_n(p, __ATOMIC_SEQ_CST);
  while (!__atomic_compare_exchange_n(p, &o, (o >= lim) ? 0u : o + 1u, false, __ATOMIC_SEQ_CST, __ATOMIC_SEQ_CST)) {}
  return o;
}

namespace emu {
namespace cuda {
// what cuLaunchKernel does with (grid, block): CUDA limits, then blocks x threads
template <class Call>
inline void launch(const char *backend, const launch_t &l, const kernel_attrs_t &a, status_t &st, Call call) {
  limits_t lim;   // defaults are the CUDA limits (compute capability >= 3.0)
  if (!check_limits(backend, l.outer, l.inner, lim, st)) return;
  const unsigned long long threads = (unsigned long long) l.inner[0] * l.inner[1] * l.inner[2];
  if (a.max_threads >= 0 && threads > (unsigned long long) a.max_threads) {
    st.code = 1;
    snprintf(st.msg, sizeof st.msg, "%s: block of %llu threads exceeds __launch_bounds__(%ld)", backend, threads, a.max_threads);
    return;
  }
  const size_t G[3] = {l.outer[0], l.outer[1], l.outer[2]}, L[3] = {l.inner[0], l.inner[1], l.inner[2]};
  run_grid(G, L, [&] {
    const item_t &c = self();
    blockIdx = {(unsigned) c.group[0], (unsigned) c.group[1], (unsigned) c.group[2]};
    threadIdx = {(unsigned) c.local[0], (unsigned) c.local[1], (unsigned) c.local[2]};
    gridDim.x = (unsigned) c.ngroups[0]; gridDim.y = (unsigned) c.ngroups[1]; gridDim.z = (unsigned) c.ngroups[2];
    blockDim.x = (unsigned) c.lsize[0]; blockDim.y = (unsigned) c.lsize[1]; blockDim.z = (unsigned) c.lsize[2];
    call();
  }, st);
}
}  // namespace cuda
}  // namespace emu
#ifndef EMU_BACKEND_NAME
#define EMU_BACKEND_NAME "cuda"
#endif
namespace emu {
template <class Call>
inline void backend_launch(const launch_t &l, const kernel_attrs_t &a, status_t &st, Call call) {
  cuda::launch(EMU_BACKEND_NAME, l, a, st, call);
}
}  // namespace emu
#include "emu_glue.hpp"

// ---- the device language (macros last) ----------------------------------------------------
#define __global__
#define __device__
#define __host__
#define __constant__
#define __shared__ static
#define __forceinline__ inline
#define __noinline__
#define __launch_bounds__(...)
#ifndef __restrict__
// g++ knows __restrict__
#endif
