"""emu_build.py -- builds emulated "modules" (shared objects) out of OCCA translator output.

A module = the generated *launcher* source (host C++, compiled against the real OCCA headers) +
the generated *device* source (compiled unmodified by g++ behind <backend>_shim.hpp) + a generated
glue file with one trampoline per device function and the table `emu_kernel_table`.

    import emu_build
    so = emu_build.build_module(mode, device_src, launcher_src, out_so, repo=..., libdir=..., flags=[...])
    emu_build.build_modules(jobs, workers=4)        # jobs = list of dicts with the same keys; parallel

Only the python standard library is used.  Nothing here knows about a particular property.
"""
import os, re, shutil, subprocess, concurrent.futures

EMU_DIR = os.path.dirname(os.path.abspath(__file__))

SHIM = {
    "cuda": "cuda_shim.hpp",
    "hip": "cuda_shim.hpp",          # same device language subset; HIP's header is a stub
    "opencl": "opencl_shim.hpp",
    "metal": "metal_shim.hpp",
    "dpcpp": "sycl_shim.hpp",
}
LAUNCHER_MODES = ("cuda", "hip", "opencl", "metal", "dpcpp")


class EmuBuildError(Exception):
    pass


def device_kernels(mode, src):
    """[(name, max_threads, (r0,r1,r2))] of the device functions the translator emitted, in order."""
    out, seen = [], set()
    for m in re.finditer(r"\bvoid\s+(_occa_[A-Za-z0-9_]+?_\d+)\s*\(", src):
        name = m.group(1)
        if name in seen:
            continue
        seen.add(name)
        # attributes sit between the previous ';' / '}' / directive line and the name
        start = max(src.rfind(";", 0, m.start()), src.rfind("}", 0, m.start()), 0)
        head = src[start:m.start()]
        mt, rq = -1, (-1, -1, -1)
        a = re.search(r"__launch_bounds__\(\s*(-?\d+)\s*\)", head)
        if a:
            mt = int(a.group(1))
        a = re.search(r"reqd_work_group_size\(\s*(-?\d+)\s*,\s*(-?\d+)\s*,\s*(-?\d+)\s*\)", head)
        if a:
            rq = (int(a.group(1)), int(a.group(2)), int(a.group(3)))
        out.append((name, mt, rq))
    return out


def write_glue(mode, device_src, glue_path):
    src = open(device_src).read()
    ks = device_kernels(mode, src)
    if not ks:
        raise EmuBuildError("no device kernels found in %s" % device_src)
    lines = ['#define EMU_BACKEND_NAME "%s"' % mode,
             '#include "%s"' % SHIM[mode],
             '#include "%s"' % os.path.abspath(device_src),
             '#include "emu_glue_end.hpp"']
    for (n, mt, rq) in ks:
        lines.append("EMU_KERNEL_TRAMP(%s)" % n)
    lines.append('extern "C" { ::emu::entry_t emu_kernel_table[] = {')
    for (n, mt, rq) in ks:
        lines.append("  EMU_KERNEL_ENTRY(%s, %d, %d, %d, %d)" % (n, mt, rq[0], rq[1], rq[2]))
    lines.append("  { 0, 0, 0, { -1, { -1, -1, -1 } } }")
    lines.append("}; }")
    with open(glue_path, "w") as f:
        f.write("\n".join(lines) + "\n")
    return ks


def _base(cxx, flags):
    return [cxx, "-std=c++17", "-fPIC", "-w", "-fno-strict-aliasing"] + list(flags or ["-O0"])


def build_pch(pch_dir, repo="/repo", libdir=None, flags=(), timeout=600, cxx="g++"):
    """Precompiles <occa/core/kernel.hpp> (the first line of every generated launcher) into
    pch_dir/occa/core/kernel.hpp.gch; pass pch_dir to build_module(pch_dir=...).  Same flags required."""
    out = os.path.join(pch_dir, "occa", "core", "kernel.hpp.gch")
    os.makedirs(os.path.dirname(out), exist_ok=True)
    inc = ["-I", os.path.join(repo, "include"), "-I", os.path.join(repo, "src")]
    if libdir:
        inc += ["-I", os.path.join(libdir, "include")]
    cmd = _base(cxx, flags) + inc + ["-x", "c++-header", os.path.join(repo, "include", "occa", "core", "kernel.hpp"), "-o", out + ".tmp"]
    p = subprocess.run(cmd, stdout=subprocess.PIPE, stderr=subprocess.STDOUT, text=True, errors="replace", timeout=timeout)
    if p.returncode != 0:
        raise EmuBuildError("precompiling occa/core/kernel.hpp failed:\n%s" % p.stdout[-4000:])
    os.replace(out + ".tmp", out)
    return pch_dir


def build_module(mode, device_src, launcher_src, out_so, repo="/repo", libdir=None, flags=(), timeout=600, cxx="g++",
                 pch_dir=None):
    """Returns (out_so, kernels). Raises EmuBuildError with the compiler output on failure."""
    if mode not in SHIM:
        raise EmuBuildError("mode %s has no emulation shim" % mode)
    glue = out_so + ".glue.cpp"
    ks = write_glue(mode, device_src, glue)
    inc_dev = ["-I", EMU_DIR, "-I", os.path.join(EMU_DIR, "stubs")]
    inc_host = (["-I", pch_dir] if pch_dir else []) + ["-I", os.path.join(repo, "include"), "-I", os.path.join(repo, "src")]
    if libdir:
        inc_host += ["-I", os.path.join(libdir, "include")]
    base = _base(cxx, flags)
    objs = []
    for (src, tag, inc) in ((launcher_src, "launcher", inc_host), (glue, "glue", inc_dev)):
        obj = "%s.%s.o" % (out_so, tag)
        cmd = base + inc + ["-x", "c++", "-c", src, "-o", obj]
        p = subprocess.run(cmd, stdout=subprocess.PIPE, stderr=subprocess.STDOUT, text=True, errors="replace", timeout=timeout)
        if p.returncode != 0:
            raise EmuBuildError("compiling %s of %s module failed:\n%s\n%s" % (tag, mode, " ".join(cmd), p.stdout[-6000:]))
        objs.append(obj)
    # launcher and device source are separate binaries in a real backend and may both define the
    # kernel file's helper functions: keep only the table global in the device object
    p = subprocess.run(["objcopy", "--keep-global-symbol=emu_kernel_table", objs[1]],
                       stdout=subprocess.PIPE, stderr=subprocess.STDOUT, text=True, errors="replace", timeout=timeout)
    if p.returncode != 0:
        raise EmuBuildError("objcopy failed:\n%s" % p.stdout[-2000:])
    # the module's undefined symbols (libstdc++, libocca, the emu engine) are resolved from the host
    # executable at dlopen time, so nothing needs to be linked in: -nostdlib + lld is ~5x faster
    san = [f for f in (flags or ()) if f.startswith("-fsanitize")]
    fast = [] if san else ["-nostdlib"] + (["-fuse-ld=lld"] if shutil.which("ld.lld") else [])
    cmd = [cxx, "-shared", "-o", out_so + ".tmp"] + fast + objs + ["-Wl,-Bsymbolic"] + ([] if fast else ["-lpthread"]) + san
    p = subprocess.run(cmd, stdout=subprocess.PIPE, stderr=subprocess.STDOUT, text=True, errors="replace", timeout=timeout)
    if p.returncode != 0:
        raise EmuBuildError("linking %s module failed:\n%s" % (mode, p.stdout[-4000:]))
    os.replace(out_so + ".tmp", out_so)
    for o in objs:
        os.unlink(o)
    return out_so, ks


def build_modules(jobs, workers=4):
    """jobs: list of dict(mode, device_src, launcher_src, out_so, repo, libdir, flags).
    Returns list of (job, so or None, error or None) in order."""
    res = [None] * len(jobs)
    with concurrent.futures.ThreadPoolExecutor(max_workers=workers) as ex:
        futs = {}
        for i, j in enumerate(jobs):
            futs[ex.submit(build_module, **j)] = i
        for f in concurrent.futures.as_completed(futs):
            i = futs[f]
            try:
                so, ks = f.result()
                res[i] = (jobs[i], so, None)
            except (EmuBuildError, subprocess.TimeoutExpired) as e:
                res[i] = (jobs[i], None, str(e))
    return res
