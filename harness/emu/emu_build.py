"""emu_build.py -- builds emulated "modules" (shared objects) out of OCCA translator output.

A module = the generated *launcher* source (host C++, compiled against the real OCCA headers) +
the generated *device* source (compiled unmodified by g++ behind <backend>_shim.hpp) + a generated
glue file with one trampoline per device function and the table `emu_kernel_table`.

    import emu_build
    so = emu_build.build_module(mode, device_src, launcher_src, out_so, repo=..., libdir=..., flags=[...])
    emu_build.build_modules(jobs, workers=4)        # jobs = list of dicts with the same keys; parallel

Only the python standard library is used.  Nothing here knows about a particular property.
"""
import os, re, shutil, subprocess, concurrent.futures

EMU_DIR = os.path.dirname(os.path.abspath(__file__))

SHIM = {
    "cuda": "cuda_shim.hpp",
    "hip": "cuda_shim.hpp",          # same device language subset; HIP's header is a stub
    "opencl": "opencl_shim.hpp",
    "metal": "metal_shim.hpp",
    "dpcpp": "sycl_shim.hpp",
}
LAUNCHER_MODES = ("cuda", "hip", "opencl", "metal", "dpcpp")


class EmuBuildError(Exception):
    pass


def device_kernels(mode, src):
    """[(name, max_threads, (r0,r1,r2))] of the device functions the translator emitted, in order."""
    out, seen = [], set()
    for m in re.finditer(r"\bvoid\s+(_occa_[A-Za-z0-9_]+?_\d+)\s*\(", src):
        name = m.group(1)
        if name in seen:
            continue
        seen.add(name)
        # attributes sit between the previous ';' / '}' / directive line and the name
        start = max(src.rfind(";", 0, m.start()), src.rfind("}", 0, m.start()), 0)
        head = src[start:m.start()]
        mt, rq = -1, (-1, -1, -1)
        a = re.search(r"__launch_bounds__\(\s*(-?\d+)\s*\)", head)
        if a:
            mt = int(a.group(1))
        a = re.search(r"reqd_work_group_size\(\s*(-?\d+)\s*,\s*(-?\d+)\s*,\s*(-?\d+)\s*\)", head)
        if a:
            rq = (int(a.group(1)), int(a.group(2)), int(a.group(3)))
        out.append((name, mt, rq))
    return out


def write_glue(mode, device_src, glue_path):
    src = open(device_src).read()
    ks = device_kernels(mode, src)
    if not ks:
        raise EmuBuildError("no device kernels found in %s" % device_src)
    lines = ['#define EMU_BACKEND_NAME "%s"' % mode,
             '#include "%s"' % SHIM[mode],
             '#include "%s"' % os.path.abspath(device_src),
             '#include "emu_glue_end.hpp"']
    for (n, mt, rq) in ks:
        lines.append("EMU_KERNEL_TRAMP(%s)" % n)
    lines.append('extern "C" { ::emu::entry_t emu_kernel_table[] = {')
    for (n, mt, rq) in ks:
        lines.append("  EMU_KERNEL_ENTRY(%s, %d, %d, %d, %d)" % (n, mt, rq[0], rq[1], rq[2]))
    lines.append("  { 0, 0, 0, { -1, { -1, -1, -1 } } }")
    lines.append("}; }")
    with open(glue_path, "w") as f:
        f.write("\n".join(lines) + "\n")
    return ks


def _base(cxx, flags):
    return [cxx, "-std=c++17", "-fPIC", "-w", "-fno-strict-aliasing"] + list(flags or ["-O0"])


def build_pch(pch_dir, repo="/repo", libdir=None, flags=(), timeout=600, cxx="g++"):
    """Precompiles <occa/core/kernel.hpp> (the first line of every generated launcher) into
    pch_dir/occa/core/kernel.hpp.gch; pass pch_dir to build_module(pch_dir=...).  Same flags required."""
    out = os.path.join(pch_dir, "occa", "core", "kernel.hpp.gch")
    os.makedirs(os.path.dirname(out), exist_ok=True)
    inc = ["-I", os.path.join(repo, "include"), "-I", os.path.join(repo, "src")]
    if libdir:
        inc += ["-I", os.path.join(libdir, "include")]
    cmd = _base(cxx, flags) + inc + ["-x", "c++-header", os.path.join(repo, "include", "occa", "core", "kernel.hpp"), "-o", out + ".tmp"]
    p = subprocess.run(cmd, stdout=subprocess.PIPE, stderr=subprocess.STDOUT, text=True, errors="replace", timeout=timeout)
    if p.returncode != 0:
        raise EmuBuildError("precompiling occa/core/kernel.hpp failed:\n%s" % p.stdout[-4000:])
    os.replace(out + ".tmp", out)
    return pch_dir


def _run(cmd, what, timeout):
    p = subprocess.run(cmd, stdout=subprocess.PIPE, stderr=subprocess.STDOUT, text=True, errors="replace", timeout=timeout)
    if p.returncode != 0:
        raise EmuBuildError("%s failed:\n%s\n%s" % (what, " ".join(cmd), p.stdout[-6000:]))


def compile_launcher(launcher_src, obj, repo="/repo", libdir=None, flags=(), timeout=600, cxx="g++", pch_dir=None):
    """Compiles a generated launcher (host C++ against the real OCCA headers) into `obj`."""
    inc_host = (["-I", pch_dir] if pch_dir else []) + ["-I", os.path.join(repo, "include"), "-I", os.path.join(repo, "src")]
    if libdir:
        inc_host += ["-I", os.path.join(libdir, "include")]
    _run(_base(cxx, flags) + inc_host + ["-x", "c++", "-c", launcher_src, "-o", obj], "compiling launcher %s" % launcher_src, timeout)
    return obj


def build_module(mode, device_src, launcher_src, out_so, repo="/repo", libdir=None, flags=(), timeout=600, cxx="g++",
                 pch_dir=None, launcher_obj=None):
    """Returns (out_so, kernels). Raises EmuBuildError with the compiler output on failure.
    launcher_obj: an object already compiled from an identical launcher source (the five launcher
    translators share withLauncher, so their launchers are usually byte-identical)."""
    if mode not in SHIM:
        raise EmuBuildError("mode %s has no emulation shim" % mode)
    glue = out_so + ".glue.cpp"
    ks = write_glue(mode, device_src, glue)
    own_launcher = launcher_obj is None
    if own_launcher:
        launcher_obj = compile_launcher(launcher_src, out_so + ".launcher.o", repo, libdir, flags, timeout, cxx, pch_dir)
    glue_obj = out_so + ".glue.o"
    _run(_base(cxx, flags) + ["-I", EMU_DIR, "-I", os.path.join(EMU_DIR, "stubs"), "-x", "c++", "-c", glue, "-o", glue_obj],
         "compiling the %s device source of %s" % (mode, device_src), timeout)
    # launcher and device source are separate binaries in a real backend and may both define the
    # kernel file's helper functions: keep only the table global in the device object
    _run(["objcopy", "--keep-global-symbol=emu_kernel_table", glue_obj], "objcopy", timeout)
    # the module's undefined symbols (libstdc++, libocca, the emu engine) are resolved from the host
    # executable at dlopen time, so nothing needs to be linked in: -nostdlib + lld is ~5x faster
    san = [f for f in (flags or ()) if f.startswith("-fsanitize")]
    fast = [] if san else ["-nostdlib"] + (["-fuse-ld=lld"] if shutil.which("ld.lld") else [])
    _run([cxx, "-shared", "-o", out_so + ".tmp"] + fast + [launcher_obj, glue_obj, "-Wl,-Bsymbolic"] +
         ([] if fast else ["-lpthread"]) + san, "linking the %s module" % mode, timeout)
    os.replace(out_so + ".tmp", out_so)
    os.unlink(glue_obj)
    if own_launcher:
        os.unlink(launcher_obj)
    return out_so, ks


def build_modules(jobs, workers=4):
    """jobs: list of dict(mode, device_src, launcher_src, out_so, repo, libdir, flags, pch_dir).
    Identical launcher sources are compiled once.  Returns list of (job, so or None, error or None) in order."""
    import hashlib
    res = [None] * len(jobs)
    groups = {}
    for i, j in enumerate(jobs):
        h = hashlib.sha1(open(j["launcher_src"], "rb").read() + repr(sorted((k, str(v)) for k, v in j.items()
                         if k in ("repo", "libdir", "flags", "pch_dir"))).encode()).hexdigest()
        groups.setdefault(h, []).append(i)
    with concurrent.futures.ThreadPoolExecutor(max_workers=workers) as ex:
        lfuts = {}
        for h, idxs in groups.items():
            j = jobs[idxs[0]]
            kw = dict((k, j[k]) for k in ("repo", "libdir", "flags", "pch_dir", "timeout", "cxx") if k in j)
            lfuts[h] = ex.submit(compile_launcher, j["launcher_src"], j["out_so"] + ".shared-launcher.o", **kw)
        lobj = {}
        for h, f in lfuts.items():
            try:
                lobj[h] = (f.result(), None)
            except (EmuBuildError, subprocess.TimeoutExpired) as e:
                lobj[h] = (None, str(e))
        futs = {}
        for h, idxs in groups.items():
            for i in idxs:
                if lobj[h][1]:
                    res[i] = (jobs[i], None, lobj[h][1])
                else:
                    futs[ex.submit(build_module, launcher_obj=lobj[h][0], **jobs[i])] = i
        for f in concurrent.futures.as_completed(futs):
            i = futs[f]
            try:
                so, ks = f.result()
                res[i] = (jobs[i], so, None)
            except (EmuBuildError, subprocess.TimeoutExpired) as e:
                res[i] = (jobs[i], None, str(e))
    for h, (o, e) in lobj.items():
        if o and os.path.exists(o):
            os.unlink(o)
    return res
