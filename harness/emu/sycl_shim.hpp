// sycl_shim.hpp -- host emulation of the SYCL 2020 subset that OCCA's dpcpp translator emits
// (also reachable as <CL/sycl.hpp> through harness/emu/stubs).
//   launch model (src/occa/internal/modes/dpcpp/kernel.cpp deviceRun): the generated host function
//     extern "C" void f(sycl::queue *q, sycl::nd_range<3> *r, user args by reference / pointer)
//   is called with r = nd_range<3>({full.z, full.y, full.x}, {inner.z, inner.y, inner.x}),
//   full = outer*inner; inside, q->submit(h => h.parallel_for(*r, item => body)).
//   nd_item<3>::get_group(d) / get_local_id(d) return size_t; dimension 2 varies fastest.
#pragma once
#include "emu_core.hpp"
#include <cmath>
#include <cstdint>
#include <type_traits>
#include <typeinfo>

namespace sycl {
template <int D = 1> struct range {
  size_t v[D];
  range() { for (int i = 0; i < D; ++i) v[i] = 1; }
  range(size_t a) { static_assert(D == 1, ""); v[0] = a; }
  range(size_t a, size_t b) { static_assert(D == 2, ""); v[0] = a; v[1] = b; }
  range(size_t a, size_t b, size_t c) { static_assert(D == 3, ""); v[0] = a; v[1] = b; v[2] = c; }
  size_t operator[](int i) const { return v[i]; }
  size_t &operator[](int i) { return v[i]; }
  size_t get(int i) const { return v[i]; }
  size_t size() const { size_t s = 1; for (int i = 0; i < D; ++i) s *= v[i]; return s; }
};
template <int D = 1> using id = range<D>;
template <int D = 1> struct nd_range {
  range<D> global, local;
  nd_range(range<D> g, range<D> l) : global(g), local(l) {}
  range<D> get_global_range() const { return global; }
  range<D> get_local_range() const { return local; }
  range<D> get_group_range() const { range<D> r; for (int i = 0; i < D; ++i) r[i] = local[i] ? global[i] / local[i] : 0; return r; }
};
namespace access {
enum class fence_space { local_space, global_space, global_and_local };
enum class address_space { global_space, local_space, constant_space, private_space, generic_space };
enum class decorated { no, yes, legacy };
}  // namespace access
enum class memory_order { relaxed, acquire, release, acq_rel, seq_cst };
enum class memory_scope { work_item, sub_group, work_group, device, system };

template <int D = 1> struct group {
  size_t get_group_id(int d) const { return emu::self().group[D - 1 - d]; }
  size_t get_local_id(int d) const { return emu::self().local[D - 1 - d]; }
  size_t get_local_range(int d) const { return emu::self().lsize[D - 1 - d]; }
  size_t get_group_range(int d) const { return emu::self().ngroups[D - 1 - d]; }
  size_t operator[](int d) const { return get_group_id(d); }
};
template <int D = 1> struct nd_item {
  // SYCL dimension d of a 3-D item corresponds to emulator dimension (2 - d): dimension 2 is the fastest
  size_t get_group(int d) const { return emu::self().group[D - 1 - d]; }
  group<D> get_group() const { return group<D>(); }
  size_t get_local_id(int d) const { return emu::self().local[D - 1 - d]; }
  size_t get_local_range(int d) const { return emu::self().lsize[D - 1 - d]; }
  size_t get_group_range(int d) const { return emu::self().ngroups[D - 1 - d]; }
  size_t get_global_id(int d) const { return get_group(d) * get_local_range(d) + get_local_id(d); }
  size_t get_global_range(int d) const { return get_group_range(d) * get_local_range(d); }
  size_t get_local_linear_id() const { return emu::self().lin; }
  void barrier(access::fence_space = access::fence_space::global_and_local) const { emu::barrier(); }
};
template <int D> inline void group_barrier(group<D>) { emu::barrier(); }

template <class T, access::address_space S = access::address_space::local_space> struct multi_ptr {
  T *p;
  T &operator*() const { return *p; }
  T *operator->() const { return p; }
  T *get() const { return p; }
};

template <class T, memory_order O = memory_order::relaxed, memory_scope Sc = memory_scope::device,
          access::address_space Sp = access::address_space::global_space>
struct atomic_ref {
  T &r;
  explicit atomic_ref(T &x) : r(x) {}
  template <class U> T fetch_add(U v) const {
    if constexpr (std::is_floating_point<T>::value) return emu::atomic_fadd(&r, (T) v);
    else return __atomic_fetch_add(&r, (T) v, __ATOMIC_SEQ_CST);
  }
  template <class U> T fetch_sub(U v) const { return fetch_add(-(T) v); }
  template <class U> T operator+=(U v) const { return fetch_add(v) + (T) v; }
  template <class U> T operator-=(U v) const { return fetch_sub(v) - (T) v; }
  T operator++() const { return fetch_add(1) + 1; }
  T operator++(int) const { return fetch_add(1); }
  T operator--() const { return fetch_sub(1) - 1; }
  T operator--(int) const { return fetch_sub(1); }
  template <class U> T fetch_and(U v) const { return __atomic_fetch_and(&r, (T) v, __ATOMIC_SEQ_CST); }
  template <class U> T fetch_or(U v) const { return __atomic_fetch_or(&r, (T) v, __ATOMIC_SEQ_CST); }
  template <class U> T fetch_xor(U v) const { return __atomic_fetch_xor(&r, (T) v, __ATOMIC_SEQ_CST); }
  template <class U> T operator&=(U v) const { return fetch_and(v) & (T) v; }
  template <class U> T operator|=(U v) const { return fetch_or(v) | (T) v; }
  template <class U> T operator^=(U v) const { return fetch_xor(v) ^ (T) v; }
  T load() const { return __atomic_load_n(&r, __ATOMIC_SEQ_CST); }
  void store(T v) const { __atomic_store_n(&r, v, __ATOMIC_SEQ_CST); }
  T operator=(T v) const { store(v); return v; }
  operator T() const { return load(); }
};

namespace ext {
namespace oneapi {
// one block per call site (source line) and work-group, shared by the items of the group
template <class T, int D>
inline multi_ptr<T, access::address_space::local_space>
group_local_memory_for_overwrite(group<D>, int line = __builtin_LINE()) {
  return multi_ptr<T, access::address_space::local_space>{
      static_cast<T *>(emu::group_local(&typeid(T), line, sizeof(T)))};
}
template <class T, int D>
inline multi_ptr<T, access::address_space::local_space> group_local_memory(group<D> g, int line = __builtin_LINE()) {
  return group_local_memory_for_overwrite<T, D>(g, line);
}
}  // namespace oneapi
}  // namespace ext

struct handler;
struct queue {
  template <class F> void submit(F f);
  void wait() {}
  void wait_and_throw() {}
};
}  // namespace sycl

namespace emu {
namespace syclemu {
struct ctx_t { const launch_t *l; const kernel_attrs_t *a; status_t *st; };
inline thread_local ctx_t ctx = {nullptr, nullptr, nullptr};
inline thread_local sycl::queue the_queue;
inline thread_local sycl::nd_range<3> the_range{sycl::range<3>(1, 1, 1), sycl::range<3>(1, 1, 1)};
}  // namespace syclemu
}  // namespace emu

namespace sycl {
struct handler {
  template <class F> void parallel_for(const nd_range<3> &r, F f) {
    emu::status_t &st = *emu::syclemu::ctx.st;
    // nd_range dimension 2 is x
    size_t G[3], L[3];
    for (int d = 0; d < 3; ++d) {
      L[d] = r.local[2 - d];
      if (L[d] == 0 || r.global[2 - d] % L[d] != 0) {
        st.code = 1;
        snprintf(st.msg, sizeof st.msg, "dpcpp: global range not divisible by local range");
        return;
      }
      G[d] = r.global[2 - d] / L[d];
    }
    emu::limits_t lim;
    lim.max_grid[0] = lim.max_grid[1] = lim.max_grid[2] = 0x7fffffffULL;   // INT_MAX per dimension (DPC++ default)
    lim.max_block[0] = lim.max_block[1] = lim.max_block[2] = 1024; lim.max_items = 1024;
    if (!emu::check_limits("dpcpp", G, L, lim, st)) return;
    emu::run_grid(G, L, [&] { f(nd_item<3>()); }, st);
  }
  template <class K, class F> void parallel_for(const nd_range<3> &r, F f) { parallel_for(r, f); }
};
template <class F> inline void queue::submit(F f) { handler h; f(h); }
}  // namespace sycl

namespace emu {
// the device "function" is a host function that performs the launch itself: call it once
template <class Call>
inline void backend_launch(const launch_t &l, const kernel_attrs_t &a, status_t &st, Call call) {
  syclemu::ctx = {&l, &a, &st};
  // dpcpp::kernel::deviceRun
  size_t full[3];
  for (int d = 0; d < 3; ++d) full[d] = l.outer[d] * l.inner[d];
  syclemu::the_range = sycl::nd_range<3>(sycl::range<3>(full[2], full[1], full[0]),
                                         sycl::range<3>(l.inner[2], l.inner[1], l.inner[0]));
  call();
  syclemu::ctx = {nullptr, nullptr, nullptr};
}
}  // namespace emu
#include "emu_glue.hpp"
namespace emu {
namespace glue {
template <> struct param< ::sycl::queue *, void> {
  static const bool from_args = false;
  static ::sycl::queue *get(void **, int, int, int) { return &syclemu::the_queue; }
};
template <> struct param< ::sycl::nd_range<3> *, void> {
  static const bool from_args = false;
  static ::sycl::nd_range<3> *get(void **, int, int, int) { return &syclemu::the_range; }
};
}  // namespace glue
}  // namespace emu

// ---- the device language (macros last) ----------------------------------------------------
#define SYCL_EXTERNAL
