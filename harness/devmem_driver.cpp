// C02 random driver (trace validation, code -> spec): performs a seeded random history of
// occa::memory calls on a Serial / OpenMP device and logs one event per call at its return:
// the call with its arguments, the outcome (ok / error = occa::exception), the bytes a copyTo
// returned, and what every handle and the wrapped host array show afterwards.  The log is
// validated by spec/trace/DeviceMemoryTrace.tla.  The driver has no model: it picks arguments
// from what the API itself reports (isInitialized, length) and from fixed ranges.
//
// input line : {"mode":"Serial","seed":7,"events":500,"nviews":6,"hostlen":16,"maxbytes":16}
// output line: {"beh":i,"mode":..,"seed":..,"host":[..],"events":[{"a":..,"v":..,"w":..,"t":..,"x":..,"y":..,"z":..,
//               "e":..,"f":..,"pat":[..],"res":"ok|error","rd":[..],"over":0|1,"ubsan":"..","obs":{"v":[..],"h":[..]}}, ..]}
//   x/y/z are logged as the spec's tokens: values beyond +-10^6 are logged as +-1000000 (HUGE/NEGHUGE)
#include "replay_core.hpp"
#include <occa.hpp>
#include <algorithm>
#include <cstdint>
#include <map>
#include <vector>

static const unsigned char SENT = 0xEE;

extern "C" void __ubsan_get_current_report_data(const char **kind, const char **msg, const char **file,
                                                 unsigned *line, unsigned *col, char **addr) __attribute__((weak));
static std::string ubsanSeen;
extern "C" void __ubsan_on_report(void) {
  const char *kind = "report", *msg = "", *file = "";
  unsigned line = 0, col = 0;
  char *addr = 0;
  if (&__ubsan_get_current_report_data) __ubsan_get_current_report_data(&kind, &msg, &file, &line, &col, &addr);
  if (!ubsanSeen.empty()) return;
  const char *base = strrchr(file, '/');
  ubsanSeen = std::string(kind) + "@" + (base ? base + 1 : file) + ":" + std::to_string(line);
  for (char &c : ubsanSeen) if (c == '"' || c == '\\' || (unsigned char)c < 32) c = ' ';
}

struct Rng {   // splitmix64
  uint64_t s;
  uint64_t next() { uint64_t z = (s += 0x9E3779B97F4A7C15ull); z = (z ^ (z >> 30)) * 0xBF58476D1CE4E5B9ull;
                    z = (z ^ (z >> 27)) * 0x94D049BB133111EBull; return z ^ (z >> 31); }
  long long in(long long lo, long long hi) { return lo + (long long)(next() % (uint64_t)(hi - lo + 1)); }
  bool chance(int pct) { return (int)(next() % 100) < pct; }
};

static occa::device &deviceFor(const std::string &mode) {
  static std::map<std::string, occa::device> devs;
  auto it = devs.find(mode);
  if (it == devs.end()) {
    occa::json p;
    p["mode"] = mode;
    it = devs.insert(std::make_pair(mode, occa::device(p))).first;
  }
  return it->second;
}

static const occa::dtype_t &dtypeFor(int e, Rng &r) {
  using namespace occa::dtype;
  static const occa::dtype_t *d1[] = {&byte, &char_, &uint8, &int8, &bool_};
  static const occa::dtype_t *d2[] = {&short_, &int16, &uint16, &char2};
  static const occa::dtype_t *d4[] = {&int_, &int32, &uint32, &float_, &uchar4, &short2};
  static const occa::dtype_t *d3[] = {&char3, &uchar3};
  static const occa::dtype_t *d8[] = {&double_, &int64, &float2};
  if (e == 1) return *d1[r.in(0, 4)];
  if (e == 2) return *d2[r.in(0, 3)];
  if (e == 3) return *d3[r.in(0, 1)];
  if (e == 8) return *d8[r.in(0, 2)];
  return *d4[r.in(0, 5)];
}

static std::string bytesJson(const unsigned char *p, size_t n) {
  std::string s = "[";
  for (size_t i = 0; i < n; ++i) { if (i) s += ","; s += std::to_string((int)p[i]); }
  return s + "]";
}

static const long long BIG[] = {2147483648LL, 4611686018427387904LL, 9223372036854775807LL, 4611686018427387905LL,
                                2305843009213693952LL};
static const long long NEGBIG[] = {-2147483649LL, -4611686018427387904LL, (-9223372036854775807LL - 1), -2305843009213693952LL};

static long long token(long long v) { return v > 1000000 ? 1000000 : (v < -1000000 ? -1000000 : v); }

struct World {
  occa::device dev;
  std::vector<occa::memory> slot;
  std::vector<unsigned char> host;
  Rng r;
  int maxBytes;
};

// an offset/count argument for a handle with L elements: mostly plausible, sometimes anything
static long long pickArg(World &w, long long L, bool count) {
  if (w.r.chance(65)) return count ? w.r.in(-1, L) : w.r.in(0, L);
  if (w.r.chance(80)) return w.r.in(-2, L + 2);
  if (w.r.chance(50)) return BIG[w.r.in(0, 4)];
  return NEGBIG[w.r.in(0, 3)];
}

static std::string observe(World &w, bool &over) {
  std::string s = "{\"v\":[";
  for (size_t i = 1; i < w.slot.size(); ++i) {
    occa::memory &m = w.slot[i];
    if (i > 1) s += ",";
    if (!m.isInitialized()) {
      s += "{\"i\":0,\"n\":" + std::to_string((long long)(m.byte_size() + m.length())) + ",\"e\":0,\"b\":[]}";
      continue;
    }
    const size_t n = m.byte_size(), e = m.dtype().bytes(), L = m.length();
    std::vector<unsigned char> b(L * e + 32, SENT);
    m.copyTo(b.data());
    for (size_t q = L * e; q < b.size(); ++q) over = over || (b[q] != SENT);
    s += "{\"i\":1,\"n\":" + std::to_string(n) + ",\"e\":" + std::to_string(e) + ",\"b\":" + bytesJson(b.data(), L * e) + "}";
  }
  return s + "],\"h\":" + bytesJson(w.host.data(), w.host.size()) + "}";
}

int main(int argc, char **argv) {
  rc::init(argc, argv);
  std::string line;
  while (rc::next(line)) {
    mj::Value c = mj::parse(line);
    const std::string mode = c["mode"].str();
    const long long nev = c["events"].i();
    rc::watchdog(600);
    World w;
    w.dev = deviceFor(mode);
    w.r.s = (uint64_t)c["seed"].i() * 0x2545F4914F6CDD1Dull + 12345;
    w.slot.resize((size_t)c["nviews"].i() + 1);
    w.maxBytes = (int)c["maxbytes"].i();
    w.host.resize((size_t)c["hostlen"].i());
    for (auto &b : w.host) b = (unsigned char)w.r.in(1, 255);
    std::string out = "{\"beh\":" + std::to_string(rc::cur_beh) + ",\"mode\":\"" + mode + "\",\"seed\":" + std::to_string(c["seed"].i()) +
                      ",\"host\":" + bytesJson(w.host.data(), w.host.size()) + ",\"events\":[";
    std::vector<unsigned char> src(4096), dst(4096);
    static const char *ACT[] = {"Malloc", "MallocFrom", "Wrap", "Slice", "Offset", "Cast", "Clone", "H2D", "D2H", "D2D", "Free",
                                "Slice", "H2D", "D2H", "D2D", "HostPoke"};
    for (long long ev = 0; ev < nev; ++ev) {
      rc::step(ev);
      // handles: the initialised ones and the never-initialised handle 0
      std::vector<int> live;
      int t = 0;
      for (size_t i = 1; i < w.slot.size(); ++i) {
        if (w.slot[i].isInitialized()) live.push_back((int)i);
        else if (!t) t = (int)i;
      }
      auto pickHandle = [&]() -> int {
        if (live.empty() || w.r.chance(8)) return 0;
        return live[(size_t)w.r.in(0, (long long)live.size() - 1)];
      };
      std::string a = ACT[w.r.in(0, 15)];
      const bool creates = (a == "Malloc" || a == "MallocFrom" || a == "Wrap" || a == "Slice" || a == "Offset" || a == "Cast" || a == "Clone");
      if (creates && !t) a = "Free";                       // no free slot: release one
      int v = 0, u = 0, e = 1, f = 0;
      long long x = 0, y = 0, z = 0;
      for (auto &b : src) b = 0xDD;
      const size_t patLen = (size_t)w.maxBytes;
      for (size_t i = 0; i < patLen; ++i) src[i] = (unsigned char)w.r.in(1, 255);
      for (auto &b : dst) b = SENT;
      { static const int ES[] = {1, 2, 4, 1, 2, 4, 3, 8}; e = ES[w.r.in(0, 7)]; }
      const occa::dtype_t &dt = dtypeFor(e, w.r);
      occa::memory none, none2;
      size_t rdLen = 0;
      std::string res = "ok";
      ubsanSeen.clear();
      if (a == "Malloc" || a == "MallocFrom") {
        x = w.r.chance(85) ? w.r.in(0, w.maxBytes / e) : (w.r.chance(70) ? w.r.in(-3, -1) : NEGBIG[w.r.in(0, 3)]);
        f = (a == "Malloc") ? (int)w.r.in(0, 1) : 0;
        if (a == "MallocFrom") v = pickHandle();
      } else if (a == "Wrap") {
        x = w.r.in(0, (long long)w.host.size());
        const long long room = ((long long)w.host.size() - x) / e;
        y = w.r.chance(85) ? w.r.in(0, room) : (w.r.chance(70) ? w.r.in(-3, -1) : NEGBIG[w.r.in(0, 3)]);
      } else if (a == "HostPoke") {
        x = w.r.in(0, (long long)w.host.size() - 1);
        y = w.r.in(1, std::min<long long>((long long)w.host.size() - x, w.maxBytes));
      } else if (a == "D2D") {
        v = pickHandle(); u = pickHandle();
        f = (int)w.r.in(0, 1);
        occa::memory &hd = v ? w.slot[v] : none;
        occa::memory &hs = u ? w.slot[u] : none2;
        x = pickArg(w, (long long)hd.length(), false);
        z = pickArg(w, (long long)hs.length(), false);
        y = pickArg(w, (long long)(f ? hd.length() : hs.length()), true);
        if (w.r.chance(40)) { x = w.r.in(0, 2); z = w.r.in(0, 2); y = w.r.in(0, 3); }
      } else {
        v = pickHandle();
        occa::memory &h = v ? w.slot[v] : none;
        const long long L = (long long)h.length();
        if (a == "Slice" || a == "H2D" || a == "D2H") { x = pickArg(w, L, false); y = pickArg(w, L, true); }
        if (a == "Offset") { x = pickArg(w, L, false); y = -1; }
      }
      {
        occa::memory &hv = v ? w.slot[v] : none;
        occa::memory &hw = u ? w.slot[u] : none2;
        try {
          if (a == "Malloc") w.slot[t] = f ? w.dev.malloc(x, dt, src.data()) : w.dev.malloc(x, dt);
          else if (a == "MallocFrom") w.slot[t] = w.dev.malloc(x, dt, hv);
          else if (a == "Wrap") w.slot[t] = w.dev.wrapMemory(w.host.data() + x, y, dt);
          else if (a == "Slice") w.slot[t] = hv.slice(x, y);
          else if (a == "Offset") w.slot[t] = hv + x;
          else if (a == "Cast") w.slot[t] = hv.cast(dt);
          else if (a == "Clone") w.slot[t] = hv.clone();
          else if (a == "H2D") hv.copyFrom(src.data(), y, x);
          else if (a == "D2H") {
            const size_t L = hv.length(), es = hv.isInitialized() ? hv.dtype().bytes() : 0;
            hv.copyTo(dst.data(), y, x);
            if (hv.isInitialized()) rdLen = (size_t)((y == -1) ? L : (size_t)y) * es;   // what was asked for
          } else if (a == "D2D") { if (f) hv.copyFrom(hw, y, x, z); else hw.copyTo(hv, y, x, z); }
          else if (a == "Free") hv.free();
          else if (a == "HostPoke") memcpy(w.host.data() + x, src.data(), (size_t)y);
        } catch (occa::exception &ex) {
          res = "error";
          rdLen = 0;
        }
      }
      const std::string ub = ubsanSeen;
      bool over = false;
      if (rdLen > 64) { rdLen = 64; over = true; }
      for (size_t q = rdLen; q < dst.size(); ++q) over = over || (dst[q] != SENT);
      const std::string obs = observe(w, over);
      if (ev) out += ",";
      out += "{\"a\":\"" + a + "\",\"v\":" + std::to_string(v) + ",\"w\":" + std::to_string(u) + ",\"t\":" + std::to_string(creates ? t : 0) +
             ",\"x\":" + std::to_string(token(x)) + ",\"y\":" + std::to_string(token(y)) + ",\"z\":" + std::to_string(token(z)) +
             ",\"e\":" + std::to_string(e) + ",\"f\":" + std::to_string(f) + ",\"pat\":" + bytesJson(src.data(), patLen) +
             ",\"res\":\"" + res + "\",\"rd\":" + bytesJson(dst.data(), rdLen) + ",\"over\":" + (over ? "1" : "0") +
             ",\"ubsan\":\"" + ub + "\",\"obs\":" + obs + "}";
    }
    rc::step(nev);
    for (size_t i = 1; i < w.slot.size(); ++i) w.slot[i].free();
    rc::emit(out + "]}");
  }
  return 0;
}
