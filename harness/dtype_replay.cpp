// C11 replayer: builds dtype_t values / kernel argument metadata from the trees the spec
// enumerates (public dtype API only), serialises them to JSON text, reads them back and prints
// what the API reports about the original and about the value read back, plus the full
// canBeCastedTo matrix between originals and read-back values.  No model in here.
//   case {"kind":"trees","pool":[tree,..]}      tree = {k,n,b,reg,sz,fn,sub}
//   case {"kind":"meta","metas":[{name,args:[{const,ptr,name,dtype}]},..]}
#include "replay_core.hpp"
#include <occa.hpp>
#include <occa/dtype/utils.hpp>
#include <occa/internal/lang/kernelMetadata.hpp>

using occa::dtype_t;

// registered user types: one global object per name, registered once (as user code does)
static std::map<std::string, dtype_t*> registeredTypes;
static const dtype_t &registeredCustom(const std::string &name, int bytes) {
  auto it = registeredTypes.find(name);
  if (it != registeredTypes.end()) return *it->second;
  dtype_t *d = new dtype_t(name, bytes);
  d->registerType();
  registeredTypes[name] = d;
  return *d;
}

static dtype_t build(const mj::Value &t);

// registered objects are handed to the API as themselves (not as copies)
static const dtype_t *registeredObject(const mj::Value &t) {
  const std::string &k = t["k"].str();
  if (k == "builtin") return &dtype_t::getBuiltin(t["n"].str());
  if (k == "custom" && t["reg"].b) return &registeredCustom(t["n"].str(), (int) t["b"].i());
  return NULL;
}

static std::string buildUnionJson(const mj::Value &t) {
  std::string s = "{\"type\":\"union\",\"fields\":[";
  for (size_t i = 0; i < t["sub"].size(); ++i) {
    if (i) s += ",";
    s += "{\"name\":" + mj::quote(t["fn"][i].str()) + ",\"dtype\":" + occa::dtype::toJson(build(t["sub"][i])).dump(0) + "}";
  }
  return s + "]}";
}

static dtype_t build(const mj::Value &t) {
  const std::string &k = t["k"].str();
  if (const dtype_t *r = registeredObject(t)) return *r;
  if (k == "custom") return dtype_t(t["n"].str(), (int) t["b"].i());
  if (k == "enum") {
    dtype_t d(t["n"].str());
    for (size_t i = 0; i < t["fn"].size(); ++i) d.addEnumerator(t["fn"][i].str());
    return d;
  }
  if (k == "tuple") {
    const mj::Value &e = t["sub"][0];
    if (const dtype_t *r = registeredObject(e)) return dtype_t::tuple(*r, (int) t["sz"].i());
    return dtype_t::tuple(build(e), (int) t["sz"].i());
  }
  if (k == "struct") {
    dtype_t d(t["n"].str());
    for (size_t i = 0; i < t["sub"].size(); ++i) {
      const mj::Value &e = t["sub"][i];
      if (const dtype_t *r = registeredObject(e)) d.addField(t["fn"][i].str(), *r);
      else if (e["k"].str() == "tuple" && registeredObject(e["sub"][0]))
        d.addField(t["fn"][i].str(), *registeredObject(e["sub"][0]), (int) e["sz"].i());   // the tupleSize form
      else d.addField(t["fn"][i].str(), build(e));
    }
    return d;
  }
  if (k == "union") return occa::dtype::fromJson(buildUnionJson(t));   // the only way to make one
  fprintf(stderr, "unknown kind %s\n", k.c_str());
  exit(2);
}

static std::string strs(const occa::strVector &v) {
  std::string s = "[";
  for (size_t i = 0; i < v.size(); ++i) s += (i ? "," : "") + mj::quote(v[i]);
  return s + "]";
}

// what the public API reports about d
static std::string observe(const dtype_t &d) {
  occa::dtypeVector_t flat;
  d.addFlatDtypes(flat);
  std::string kind;
  if (d.isEnum()) kind = "enum";
  else if (d.isStruct()) kind = "struct";
  else if (d.isUnion()) kind = "union";
  else if (flat.size() > 1) kind = "tuple";
  else if (d == dtype_t::getBuiltin(d.name()) && d != occa::dtype::none) kind = "builtin";
  else kind = "custom";
  std::string fn = "[]", sub = "[]";
  if (d.isEnum()) fn = strs(d.enumEnumeratorNames());
  if (d.isStruct() || d.isUnion()) {
    const occa::strVector &names = d.isStruct() ? d.structFieldNames() : d.unionFieldNames();
    fn = strs(names);
    sub = "[";
    for (size_t i = 0; i < names.size(); ++i) sub += (i ? "," : "") + observe(d[(int) i]);
    sub += "]";
  }
  // flattened leaves: registered leaves by name, object-local leaves by first occurrence of the pointer
  std::string fl = "[";
  for (size_t i = 0; i < flat.size(); ++i) {
    const dtype_t *p = flat[i];
    if (i) fl += ",";
    if (p->isRegistered()) {
      const bool isBuiltin = (&dtype_t::getBuiltin(p->name()) == p);
      fl += "{\"u\":false,\"id\":" + mj::quote((isBuiltin ? "" : "reg:") + p->name()) + "}";
    } else {
      size_t first = i;
      for (size_t j = 0; j < i; ++j) if (flat[j] == p) { first = j; break; }
      fl += "{\"u\":true,\"id\":\"#" + std::to_string(first) + "\"}";
    }
  }
  fl += "]";
  return "{\"k\":\"" + kind + "\",\"n\":" + mj::quote(d.name()) + ",\"bytes\":" + std::to_string(d.bytes()) +
         ",\"reg\":" + (d.isRegistered() ? "true" : "false") + ",\"fn\":" + fn + ",\"sub\":" + sub + ",\"flat\":" + fl + "}";
}

static dtype_t roundTrip(const dtype_t &d, const std::string &name, std::string &text) {
  text = occa::dtype::toJson(d, name).dump(0);          // serialise ...
  return occa::dtype::fromJson(occa::json::parse(text)); // ... and read back from the text
}

int main(int argc, char **argv) {
  rc::init(argc, argv);
  std::string line;
  while (rc::next(line)) {
    mj::Value c = mj::parse(line);
    std::string out = "{\"beh\":" + std::to_string(rc::cur_beh);
    if (c["kind"].str() == "trees") {
      const mj::Value &pool = c["pool"];
      const size_t n = pool.size();
      std::vector<dtype_t*> O(n, NULL), RT(n, NULL);
      out += ",\"trees\":[";
      for (size_t i = 0; i < n; ++i) {
        rc::step(i);
        std::string res, text, text2;
        try {
          O[i] = new dtype_t(build(pool[i]));
          dtype_t copy(*O[i]);                                  // a plain copy, for reference
          RT[i] = new dtype_t(roundTrip(*O[i], "", text));
          dtype_t named = roundTrip(*O[i], O[i]->name(), text2);  // caller passes the name
          dtype_t twice = roundTrip(*RT[i], "", text2);
          res = "{\"orig\":" + observe(*O[i]) + ",\"copy\":" + observe(copy) + ",\"back\":" + observe(*RT[i]) +
                ",\"named\":" + observe(named) + ",\"twice\":" + observe(twice) +
                ",\"selfcast\":" + (O[i]->canBeCastedTo(*O[i]) ? "true" : "false") +
                ",\"copycast\":" + (copy.canBeCastedTo(*O[i]) && O[i]->canBeCastedTo(copy) ? "true" : "false") +
                ",\"backself\":" + (RT[i]->canBeCastedTo(*RT[i]) ? "true" : "false") +
                ",\"text\":" + mj::quote(text) + "}";
        } catch (std::exception &e) {
          res = "{\"err\":" + mj::quote(e.what()) + "}";
        }
        out += (i ? "," : "") + res;
      }
      // cast matrix: rows i, columns j; four variants
      out += "],\"oo\":[";
      std::string ro, or_, rr;
      for (size_t i = 0; i < n; ++i) {
        rc::step(n + i);
        std::string a, b, cc, d;
        for (size_t j = 0; j < n; ++j) {
          if (!O[i] || !O[j] || !RT[i] || !RT[j]) { a += "x"; b += "x"; cc += "x"; d += "x"; continue; }
          a += O[i]->canBeCastedTo(*O[j]) ? "1" : "0";
          b += RT[i]->canBeCastedTo(*O[j]) ? "1" : "0";
          cc += O[i]->canBeCastedTo(*RT[j]) ? "1" : "0";
          d += RT[i]->canBeCastedTo(*RT[j]) ? "1" : "0";
        }
        out += (i ? ",\"" : "\"") + a + "\"";
        ro += (i ? ",\"" : "\"") + b + "\"";
        or_ += (i ? ",\"" : "\"") + cc + "\"";
        rr += (i ? ",\"" : "\"") + d + "\"";
      }
      out += "],\"ro\":[" + ro + "],\"or\":[" + or_ + "],\"rr\":[" + rr + "]";
      for (size_t i = 0; i < n; ++i) { delete O[i]; delete RT[i]; }
    } else {
      const mj::Value &metas = c["metas"];
      out += ",\"metas\":[";
      for (size_t i = 0; i < metas.size(); ++i) {
        rc::step(i);
        std::string res;
        try {
          occa::lang::kernelMetadata_t m;
          m.name = metas[i]["name"].str();
          const mj::Value &args = metas[i]["args"];
          for (size_t k = 0; k < args.size(); ++k)
            m += occa::lang::argMetadata_t(args[k]["const"].b, args[k]["ptr"].b, build(args[k]["dtype"]), args[k]["name"].str());
          const std::string text = m.toJson().dump(0);
          occa::lang::kernelMetadata_t r = occa::lang::kernelMetadata_t::fromJson(occa::json::parse(text));
          auto show = [](const occa::lang::kernelMetadata_t &x) {
            std::string s = "{\"name\":" + mj::quote(x.name) + ",\"init\":" + (x.isInitialized() ? "true" : "false") + ",\"args\":[";
            for (size_t k = 0; k < x.arguments.size(); ++k) {
              const occa::lang::argMetadata_t &a = x.arguments[k];
              s += std::string(k ? "," : "") + "{\"const\":" + (a.isConst ? "true" : "false") + ",\"ptr\":" + (a.isPtr ? "true" : "false") +
                   ",\"name\":" + mj::quote(a.name) + ",\"dtype\":" + observe(a.dtype) + "}";
            }
            return s + "]}";
          };
          res = "{\"orig\":" + show(m) + ",\"back\":" + show(r) + ",\"text\":" + mj::quote(text) + "}";
        } catch (std::exception &e) {
          res = "{\"err\":" + mj::quote(e.what()) + "}";
        }
        out += (i ? "," : "") + res;
      }
      out += "]";
    }
    rc::emit(out + "}");
  }
  return 0;
}
