// C25 trace driver: seeded random histories on occa::json documents; one ndjson event per public
// call, written when the call returns:  arguments, outcome, the document afterwards (spec encoding),
// and for reads what was read.  usage: ojson_driver <log> <seed> <histories> <ops per history>
#include <occa/types/json.hpp>
#include <occa/utils/exception.hpp>
#include "mini_json.hpp"
#include <cstdint>
#include <cstdio>
#include <random>
#include <string>
#include <vector>

using occa::json;
static std::string q(const std::string &s) { return mj::quote(s); }

// the spec's encoding of a value: {"k":..,"s":[..],"ks":[..],"c":[..]}
static std::string enc(const json &j) {
  if (!j.isInitialized()) return "{\"k\":\"none\",\"s\":[],\"ks\":[],\"c\":[]}";
  if (j.isNull()) return "{\"k\":\"null\",\"s\":[],\"ks\":[],\"c\":[]}";
  if (j.isNumber()) return "{\"k\":\"num\",\"s\":[" + q(std::to_string((long long) (int64_t) j.number())) + "],\"ks\":[],\"c\":[]}";
  if (j.isString()) return "{\"k\":\"str\",\"s\":[" + q(j.string()) + "],\"ks\":[],\"c\":[]}";
  if (j.isObject()) {
    std::string ks, c;
    for (const auto &kv : j.object()) {
      if (!ks.empty()) { ks += ","; c += ","; }
      ks += q(kv.first); c += enc(kv.second);
    }
    return "{\"k\":\"obj\",\"s\":[],\"ks\":[" + ks + "],\"c\":[" + c + "]}";
  }
  return "{\"k\":\"other\",\"s\":[],\"ks\":[],\"c\":[]}";
}
static std::string pathJson(const std::vector<std::string> &p) {
  std::string s = "[";
  for (size_t i = 0; i < p.size(); ++i) s += (i ? "," : "") + q(p[i]);
  return s + "]";
}
static std::string join(const std::vector<std::string> &p) {
  std::string s;
  for (size_t i = 0; i < p.size(); ++i) s += (i ? "/" : "") + p[i];
  return s;
}

int main(int argc, char **argv) {
  if (argc < 5) { fprintf(stderr, "usage: %s log seed histories ops\n", argv[0]); return 2; }
  FILE *log = fopen(argv[1], "w");
  std::mt19937 rng((unsigned) atol(argv[2]));
  const int H = atoi(argv[3]), N = atoi(argv[4]);
  auto pick = [&](int n) { return (int) (rng() % (unsigned) n); };
  const char *keys[] = {"a", "b"};
  const char *setKeys[] = {"a", "b", "a/b"};
  std::vector<json> vals = {json(1), json(2), json("s"), json(json::null_), json(json::object_), json::parse("{a: 1}")};
  std::vector<json> rhs = {json::parse("{a: 1}"), json::parse("{a: {b: 2}}"), json::parse("{a: {a: 's'}, b: null}"),
                           json::parse("{a: {a: 2}, b: {b: {a: 1}}}"), json(json::object_), json::parse("{b: {a: {}}}")};
  { json m; m.set("a/b", json::parse("{a: 2}")); rhs.push_back(m); }
  { json m; m.set("a/b", json::parse("{b: 1}")); m.set("a", json(json::object_)); rhs.push_back(m); }
  for (int h = 0; h < H; ++h) {
    fprintf(log, "{\"e\":\"reset\"}\n");
    json doc;
    for (int n = 0; n < N; ++n) {
      std::vector<std::string> p;
      const int len = 1 + pick(3);
      for (int i = 0; i < len; ++i) p.push_back(keys[pick(2)]);
      const std::string path = join(p);
      const int op = pick(10);
      bool ok = true;
      std::string e, extra;
      try {
        if (op < 3) {
          e = "setPath";
          const json &v = vals[pick((int) vals.size())];
          extra = ",\"v\":" + enc(v);
          if (v.isNumber()) doc[path] = (int) v; else if (v.isString()) doc[path] = v.string().c_str(); else doc[path] = v;
        } else if (op < 4) {
          e = "remove";
          doc.remove(path);
        } else if (op < 6) {
          e = "set";
          const bool atRoot = pick(3) == 0 || !((const json&) doc).has(path);
          if (atRoot) p.clear();
          const std::string key = setKeys[pick(3)];
          const json &v = vals[pick((int) vals.size())];
          extra = ",\"key\":" + q(key) + ",\"v\":" + enc(v);
          json &target = atRoot ? doc : doc[path];
          if (v.isNumber()) target.set(key, (int) v); else if (v.isString()) target.set(key, v.string().c_str()); else target.set(key, v);
        } else if (op < 8) {
          e = "merge";
          const bool atRoot = pick(3) == 0;
          if (atRoot) p.clear();
          const json &m = rhs[pick((int) rhs.size())];
          extra = ",\"v\":" + enc(m);
          if (atRoot) doc += m; else doc[path] += m;
        } else {
          e = "read";
          const json &cdoc = doc;
          const json &c = cdoc[path];
          extra = ",\"c\":" + enc(c) + ",\"g\":" + enc(cdoc.getPathValue(path.c_str())) +
                  ",\"h\":" + (cdoc.has(path) ? "true" : "false") + ",\"z\":" + std::to_string(c.size());
        }
      } catch (occa::exception &ex) { ok = false; }
      fprintf(log, "{\"e\":%s,\"p\":%s%s,\"ok\":%s,\"doc\":%s}\n", q(e).c_str(), pathJson(p).c_str(), extra.c_str(),
              ok ? "true" : "false", enc(doc).c_str());
    }
  }
  fclose(log);
  return 0;
}
