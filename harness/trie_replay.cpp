// C28 replayer: executes Trie.tla behaviours on occa::trie<int> and reports, after every
// step, the answer to every query in both representations.
#include "replay_core.hpp"
#include <occa/internal/utils/trie.hpp>

static std::vector<std::string> queries;
static void gen(const std::string &alpha, int maxLen) {
  queries.push_back("");
  size_t from = 0;
  for (int l = 1; l <= maxLen; ++l) {
    size_t to = queries.size();
    for (size_t i = from; i < to; ++i)
      for (char c : alpha) queries.push_back(queries[i] + c);
    from = to;
  }
}

static std::string observe(occa::trie<int> &t) {
  std::string L = "[", G = "[", H = "[";
  for (size_t i = 0; i < queries.size(); ++i) {
    const std::string &q = queries[i];
    occa::trie<int>::result_t r = t.getLongest(q);
    int len = r.success() ? r.length : 0;
    int val = r.success() ? r.value() : 0;
    if (i) { L += ","; G += ","; H += ","; }
    L += std::to_string(len * 100 + val);
    if (q.empty()) { G += "-1"; H += "-1"; continue; }
    occa::trie<int>::result_t g = t.get(q);
    G += g.success() ? std::to_string(g.value()) : "0";
    bool h1 = t.has(q), h2 = t.has(q.c_str());
    H += (h1 == h2) ? (h1 ? "1" : "0") : "2";
  }
  return "{\"L\":" + L + "],\"G\":" + G + "],\"H\":" + H + "],\"S\":" + std::to_string(t.size()) +
         ",\"F\":" + (t.isFrozen ? "1" : "0") + "}";
}

int main(int argc, char **argv) {
  rc::init(argc, argv);
  gen(getenv("TRIE_ALPHA") ? getenv("TRIE_ALPHA") : "ab", getenv("TRIE_QLEN") ? atoi(getenv("TRIE_QLEN")) : 4);
  std::string line;
  while (rc::next(line)) {
    mj::Value b = mj::parse(line);
    const mj::Value &steps = b["steps"];
    occa::trie<int> t;
    std::string out = "{\"beh\":" + std::to_string(rc::cur_beh) + ",\"obs\":[";
    for (size_t j = 0; j < steps.size(); ++j) {
      rc::step(j);
      const mj::Value &s = steps[j];
      const std::string &a = s["a"].str();
      std::string err;
      try {
        if (a == "add") t.add(s["k"].str(), (int)s["v"].i());
        else if (a == "remove") t.remove(s["k"].str());
        else if (a == "freeze") t.freeze();
        else if (a == "defrost") t.defrost();
        else if (a == "clear") t.clear();
        else if (a == "autoOn") t.autoFreeze = true;
        else if (a == "autoOff") t.autoFreeze = false;
        else { fprintf(stderr, "unknown action %s\n", a.c_str()); return 2; }
      } catch (std::exception &e) { err = e.what(); }
      std::string cur = observe(t);
      // the other representation of the same contents
      const bool wasFrozen = t.isFrozen;
      if (wasFrozen) t.defrost(); else t.freeze();
      std::string alt = observe(t);
      if (wasFrozen) t.freeze(); else t.defrost();
      if (j) out += ",";
      out += "{\"cur\":" + cur + ",\"alt\":" + alt + ",\"err\":" + (err.empty() ? "0" : "1") + "}";
    }
    rc::emit(out + "]}");
  }
  return 0;
}
