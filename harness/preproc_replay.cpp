// C13 replayer: every input line {"src": "<translation unit>"} is run through
// tokenizer_t.map(preprocessor_t); the emitted token spellings are printed per output line
// together with the preprocessor's and tokenizer's error counts.  No model in here.
//   out: {"beh":i,"lines":[["L1","1",";"],...],"errors":n,"warnings":m}
//        {"beh":i,"exc":"..."}                      occa::exception escaped
#include "replay_core.hpp"
#include <occa/internal/lang/tokenizer.hpp>
#include <occa/internal/lang/preprocessor.hpp>
#include <occa/internal/lang/processingStages.hpp>
#include <occa/utils/exception.hpp>
#include <sstream>

using namespace occa;
using namespace occa::lang;

static std::string jesc(const std::string &s) {
  std::string o;
  for (char c : s) {
    if (c == '"' || c == '\\') { o += '\\'; o += c; }
    else if ((unsigned char)c < 0x20) o += ' ';
    else o += c;
  }
  return o;
}

static std::string spelling(token_t *t) {
  const int ty = t->type();
  if (ty & tokenType::identifier) return t->to<identifierToken>().value;
  if (ty & tokenType::primitive)  return t->to<primitiveToken>().strValue;
  if (ty & tokenType::op)         return t->to<operatorToken>().op->str;
  return t->str();
}

int main(int argc, char **argv) {
  rc::init(argc, argv);
  std::string line;
  while (rc::next(line)) {
    mj::Value c = mj::parse(line);
    const std::string src = c["src"].str();
    rc::step(0);
    rc::watchdog(20);
    std::string out = "{\"beh\":" + std::to_string(rc::cur_beh);
    try {
      tokenizer_t tokenizer;
      preprocessor_t preprocessor;
      occa::lang::stream<token_t*> stream = tokenizer.map(preprocessor);
      tokenizer.set(src.c_str());
      preprocessor.clear();
      std::string lines = "[", cur;
      bool firstLine = true;
      long guard = 0;
      while (!stream.isEmpty()) {
        token_t *token = NULL;
        stream >> token;
        if (!token) break;
        if (++guard > 100000) { cur += (cur.empty() ? "" : ",") + std::string("\"#RUNAWAY\""); delete token; break; }
        if (token->type() & tokenType::newline) {
          if (!cur.empty()) {
            lines += (firstLine ? "[" : ",[") + cur + "]";
            firstLine = false;
            cur.clear();
          }
        } else {
          cur += (cur.empty() ? "\"" : ",\"") + jesc(spelling(token)) + "\"";
        }
        delete token;
      }
      if (!cur.empty()) lines += (firstLine ? "[" : ",[") + cur + "]";
      lines += "]";
      preprocessor_t &pp = *((preprocessor_t*) stream.getInput("preprocessor_t"));
      tokenizer_t &tk = *((tokenizer_t*) stream.getInput("tokenizer_t"));
      out += ",\"lines\":" + lines + ",\"errors\":" + std::to_string(pp.errors + tk.errors) +
             ",\"warnings\":" + std::to_string(pp.warnings + tk.warnings) + "}";
    } catch (occa::exception &e) {
      out += ",\"exc\":\"" + jesc(e.message) + "\"}";
    } catch (std::exception &e) {
      out += ",\"exc\":\"std:" + jesc(e.what()) + "\"}";
    }
    rc::watchdog(0);
    rc::emit(out);
  }
  return 0;
}
