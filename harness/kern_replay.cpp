// kern_replay.cpp -- C20/C21: translate OKL kernel files with the real translators and execute
// the kernels with given argument values on every backend.  Deliberately dumb: no model of what a
// kernel computes; it moves arguments in, runs, and prints every array argument afterwards.
// (Derived from harness/oklrun_replay.cpp; uses harness/emu for the five launcher backends.)
//
//   usage: kern_replay <in.ndjson> <out.ndjson> [start]
// One input line = one case:
//   {"op":"translate","mode":M,"okl":path,"device":path,"launcher":path,"props":{...}}
//        in-process occa::lang::okl::<M>Parser; writes the translated source(s) unmodified.
//        -> {"beh":i,"ok":bool,"err":...}
//   {"op":"run","mode":M,"okl":path,"module":path.so,"props":{...},"reps":r,
//    "kernels":[{"name":k,"runs":[[arg,...],...]}]}
//        arg = {"t":"int","v":n} | {"t":"int*","init":[...]}
//        serial/openmp: device.buildKernel(okl, k, props) through the real JIT (props may say
//          okl/enabled=false to build an already translated source); cuda/hip/opencl/metal/dpcpp:
//          the emulated module is loaded, the generated launcher + device functions are executed.
//        every run is executed `reps` times on fresh buffers.
//        -> {"beh":i,"res":[[{"out":[[...],...],"same":bool,"alt":[[...]],"launches":[...],"err":null|".."}]]}
//           "out" = every pointer argument after the first execution, "same" = all repetitions
//           gave identical arrays, "alt" = the arrays of the first differing repetition.
#include "replay_core.hpp"
#include "emu/emu_host.hpp"

#include <occa/internal/lang/modes/serial.hpp>
#include <occa/internal/lang/modes/openmp.hpp>
#include <occa/internal/lang/modes/cuda.hpp>
#include <occa/internal/lang/modes/hip.hpp>
#include <occa/internal/lang/modes/opencl.hpp>
#include <occa/internal/lang/modes/metal.hpp>
#include <occa/internal/lang/modes/dpcpp.hpp>
#include <occa/internal/io.hpp>

using namespace occa;

static occa::json toOccaJson(const mj::Value &v) {
  occa::json j;
  switch (v.kind) {
    case mj::Value::Null: return occa::json(occa::json::null_);
    case mj::Value::Bool: j = v.b; return j;
    case mj::Value::Num: if (v.isInt) j = (long) v.n; else j = v.d; return j;
    case mj::Value::Str: j = v.s; return j;
    case mj::Value::Arr: j.asArray(); for (auto &x : v.a) j += toOccaJson(x); return j;
    case mj::Value::Obj: j.asObject(); for (auto &kv : v.o) j[kv.first] = toOccaJson(kv.second); return j;
  }
  return j;
}

static lang::parser_t *makeParser(const std::string &mode, const occa::json &props) {
  if (mode == "serial") return new lang::okl::serialParser(props);
  if (mode == "openmp") return new lang::okl::openmpParser(props);
  if (mode == "cuda") return new lang::okl::cudaParser(props);
  if (mode == "hip") return new lang::okl::hipParser(props);
  if (mode == "opencl") return new lang::okl::openclParser(props);
  if (mode == "metal") return new lang::okl::metalParser(props);
  if (mode == "dpcpp") return new lang::okl::dpcppParser(props);
  return NULL;
}
static bool isLauncherMode(const std::string &m) { return m != "serial" && m != "openmp"; }

static void writeFile(const std::string &path, const std::string &text) {
  FILE *f = fopen(path.c_str(), "w");
  if (!f) throw std::runtime_error("cannot write " + path);
  fwrite(text.data(), 1, text.size(), f);
  fclose(f);
}

static std::string doTranslate(const mj::Value &c) {
  const std::string mode = c["mode"].str();
  occa::json props = c.has("props") ? toOccaJson(c["props"]) : occa::json();
  props["mode"] = mode;
  std::string err;
  bool ok = false;
  lang::parser_t *parser = makeParser(mode, props);
  try {
    parser->parseFile(c["okl"].str());
    ok = parser->succeeded();
    if (ok) {
      writeFile(c["device"].str(), parser->toString());
      if (isLauncherMode(mode))
        writeFile(c["launcher"].str(), ((lang::okl::withLauncher *) parser)->launcherParser.toString());
    }
  } catch (std::exception &e) { err = e.what(); ok = false; }
  delete parser;
  return std::string("\"ok\":") + (ok ? "true" : "false") + ",\"err\":" + (err.empty() ? "null" : mj::quote(err.substr(0, 400)));
}

struct ArgBuf { bool ptr; std::vector<int> init; occa::memory mem; };

static std::string dense(occa::memory &m, size_t n) {
  std::vector<int> h(n ? n : 1);
  if (n) m.copyTo(h.data(), (occa::dim_t) n);
  std::string s = "[";
  for (size_t i = 0; i < n; ++i) { if (i) s += ","; s += std::to_string(h[i]); }
  return s + "]";
}

static std::string launchesJson(const emu::RunResult &r) {
  std::string s = "[";
  for (size_t i = 0; i < r.launches.size(); ++i) {
    const emu::launch_record &l = r.launches[i];
    if (i) s += ",";
    s += "{\"k\":" + mj::quote(l.kernel) + ",\"outer\":[" + std::to_string(l.outer[0]) + "," + std::to_string(l.outer[1]) + "," +
         std::to_string(l.outer[2]) + "],\"inner\":[" + std::to_string(l.inner[0]) + "," + std::to_string(l.inner[1]) + "," +
         std::to_string(l.inner[2]) + "],\"code\":" + std::to_string(l.st.code) + ",\"divergent\":" +
         std::to_string(l.st.divergent_barriers) + ",\"msg\":" + mj::quote(l.st.msg) + "}";
  }
  return s + "]";
}

static std::map<std::string, occa::device> devices;
static occa::device &getDevice(const std::string &mode) {
  auto it = devices.find(mode);
  if (it != devices.end()) return it->second;
  occa::json p;
  p["mode"] = (mode == "openmp") ? "OpenMP" : "Serial";
  devices[mode] = occa::device(p);
  return devices[mode];
}

static std::string doRun(const mj::Value &c) {
  const std::string mode = c["mode"].str();
  const bool emulated = isLauncherMode(mode);
  occa::device &dev = getDevice(emulated ? "serial" : mode);
  occa::json props = c.has("props") ? toOccaJson(c["props"]) : occa::json();
  const int reps = c.has("reps") ? (int) c["reps"].i() : 1;
  std::unique_ptr<emu::Module> mod;
  if (emulated) mod.reset(new emu::Module(c["module"].str(), dev));
  std::string out = "\"res\":[";
  const mj::Value &ks = c["kernels"];
  for (size_t ki = 0; ki < ks.size(); ++ki) {
    const std::string name = ks[ki]["name"].str();
    const mj::Value &runs = ks[ki]["runs"];
    if (ki) out += ",";
    out += "[";
    occa::kernel kern;
    std::string buildErr;
    if (!emulated) {
      try { kern = dev.buildKernel(c["okl"].str(), name, props); }
      catch (std::exception &e) { buildErr = e.what(); }
    }
    for (size_t ri = 0; ri < runs.size(); ++ri) {
      rc::step((long) (ki * 100000 + ri));
      const mj::Value &args = runs[ri];
      if (ri) out += ",";
      std::string err = buildErr, launches = "[]", first, alt;
      bool same = true;
      for (int rep = 0; rep < reps && err.empty(); ++rep) {
        std::vector<ArgBuf> bufs(args.size());
        std::vector<occa::kernelArg> kargs;
        try {
          for (size_t a = 0; a < args.size(); ++a) {
            ArgBuf &b = bufs[a];
            const std::string t = args[a]["t"].str();
            b.ptr = (t == "int*");
            if (b.ptr) {
              const mj::Value &iv = args[a]["init"];
              for (size_t i = 0; i < iv.size(); ++i) b.init.push_back((int) iv[i].i());
              b.mem = dev.malloc(b.init.size() * sizeof(int), b.init.data());
              b.mem.setDtype(occa::dtype::int_);
              kargs.push_back(occa::kernelArg(b.mem));
            } else if (t == "int") {
              kargs.push_back(occa::kernelArg((int) args[a]["v"].i()));
            } else throw std::runtime_error("unknown arg type " + t);
          }
          if (emulated) {
            emu::RunResult r = mod->run(name, kargs);
            if (rep == 0) launches = launchesJson(r);
          } else {
            kern.clearArgs();
            for (auto &ka : kargs) kern.pushArg(ka);
            kern.run();
          }
        } catch (std::exception &e) { err = e.what(); }
        std::string cur = "[";
        bool firstBuf = true;
        for (auto &b : bufs) {
          if (!b.ptr) continue;
          if (!firstBuf) cur += ",";
          firstBuf = false;
          cur += dense(b.mem, b.init.size());
        }
        cur += "]";
        for (auto &b : bufs) if (b.mem.isInitialized()) b.mem.free();
        if (rep == 0) first = cur;
        else if (cur != first && same) { same = false; alt = cur; }
      }
      if (first.empty()) first = "[]";
      out += "{\"out\":" + first + ",\"same\":" + (same ? "true" : "false") + ",\"alt\":" + (alt.empty() ? "null" : alt) +
             ",\"launches\":" + launches + ",\"err\":" + (err.empty() ? "null" : mj::quote(err.substr(0, 300))) + "}";
    }
    out += "]";
    if (kern.isInitialized()) kern.free();
  }
  return out + "]";
}

int main(int argc, char **argv) {
  rc::init(argc, argv);
  std::string line;
  while (rc::next(line)) {
    mj::Value c = mj::parse(line);
    const std::string op = c["op"].str();
    std::string body;
    try {
      if (op == "translate") body = doTranslate(c);
      else if (op == "run") body = doRun(c);
      else { fprintf(stderr, "unknown op %s\n", op.c_str()); return 2; }
    } catch (std::exception &e) {
      body = std::string("\"fatal\":") + mj::quote(std::string(e.what()).substr(0, 600));
    }
    rc::emit("{\"beh\":" + std::to_string(rc::cur_beh) + "," + body + "}");
  }
  return 0;
}
