// C01 replayer: executes Handles.tla behaviours through the public handle API.
//   case   : {"slots":["d1","m1",...],"steps":[{"a":..,"s":..,"t":..,"n":..},...]}
//   output : {"beh":i,"obs":[{"err":0|1,"Hd":[..],"L":[..],"D":[[..]..],"A":[..],"an":k},...],"fin":{...}}
// Handle variables are heap-allocated C++ handle objects, so "scope exit" is `delete`: a ring that
// still points at a destroyed handle variable is a heap-use-after-free for ASan.
// The replayer has no model of its own: it maps action names to calls and projects
//   Hd : -1 out of scope, 0 not initialized, k = per-kind serial of the backend object (hook H1),
//        -2 = the handle points at an object that is no longer alive
//   L  : live backend objects per kind,  D : destroyed-count per kind and serial,
//   A / M : memoryAllocated() / maxMemoryAllocated() through every initialized device handle,
//   an : registry anomalies.
// With HR_LEAKCHECK=k LeakSanitizer looks for unreachable heap blocks after every k-th behaviour (all handle
// variables destroyed at that point); a line {"leak":1,"upto":i} is written when it finds any.
#include "replay_core.hpp"
#include <occa.hpp>
#include <occa/internal/core/device.hpp>
#include <occa/internal/core/memory.hpp>
#include <occa/internal/core/memoryPool.hpp>
#include <occa/internal/core/kernel.hpp>
#include <occa/internal/core/stream.hpp>
#include <occa/internal/core/streamTag.hpp>
#include <occa/internal/utils/verif.hpp>

extern "C" int __lsan_do_recoverable_leak_check(void) __attribute__((weak));

namespace v = occa::verif;

static const v::kind_t kinds[7] = {v::kDevice, v::kBuffer, v::kMemory, v::kMemoryPool,
                                   v::kKernel, v::kStream, v::kStreamTag};
static std::string modeProps = "{mode: 'Serial'}";
static std::string kernelBinary;
static char hostBuffer[4096];
static const int bufBytes = 64, cellBytes = 128;

struct Slot {
  std::string name;
  char kind;  // d m p k s t
  occa::device *d = 0; occa::memory *m = 0; occa::memoryPool *p = 0;
  occa::kernel *k = 0; occa::stream *s = 0; occa::streamTag *t = 0;
  bool in() const { return d || m || p || k || s || t; }
  void drop() {
    delete d; delete m; delete p; delete k; delete s; delete t;
    d = 0; m = 0; p = 0; k = 0; s = 0; t = 0;
  }
};
static std::vector<Slot> slots;
static std::vector<occa::modeDevice_t*> seenDevices;  // to free devices a history leaves alive on purpose (dontUseRefs)
static Slot &slot(const std::string &n) {
  for (auto &x : slots) if (x.name == n) return x;
  fprintf(stderr, "unknown slot %s\n", n.c_str());
  exit(2);
}

static void needKernelBinary() {
  if (!kernelBinary.empty()) return;
  occa::device dev(modeProps);
  occa::kernel k = dev.buildKernelFromString(
    "@kernel void k(const int n, int *a) { for (int i = 0; i < n; ++i; @outer) { for (int j = 0; j < 1; ++j; @inner) { a[i] = i; } } }",
    "k");
  kernelBinary = k.binaryFilename();
}

static long handleSerial(const Slot &x) {
  switch (x.kind) {
  case 'd': { auto *q = x.d->getModeDevice(); return q ? (v::serialOf(v::kDevice, q) ? v::serialOf(v::kDevice, q) : -2) : 0; }
  case 'm': { auto *q = x.m->getModeMemory(); return q ? (v::serialOf(v::kMemory, q) ? v::serialOf(v::kMemory, q) : -2) : 0; }
  case 'p': { auto *q = x.p->getModeMemoryPool(); return q ? (v::serialOf(v::kMemoryPool, q) ? v::serialOf(v::kMemoryPool, q) : -2) : 0; }
  case 'k': { auto *q = x.k->getModeKernel(); return q ? (v::serialOf(v::kKernel, q) ? v::serialOf(v::kKernel, q) : -2) : 0; }
  case 's': { auto *q = x.s->getModeStream(); return q ? (v::serialOf(v::kStream, q) ? v::serialOf(v::kStream, q) : -2) : 0; }
  default:  { auto *q = x.t->getModeStreamTag(); return q ? (v::serialOf(v::kStreamTag, q) ? v::serialOf(v::kStreamTag, q) : -2) : 0; }
  }
}

static std::string observe(bool err) {
  std::string Hd = "[", A = "[", M = "[", L = "[", D = "[";
  for (size_t j = 0; j < slots.size(); ++j) {
    Slot &x = slots[j];
    long h = x.in() ? handleSerial(x) : -1;
    long a = 0, m = 0;
    if (x.kind == 'd' && h > 0) {
      occa::modeDevice_t *md = x.d->getModeDevice();
      bool known = false;
      for (auto *q : seenDevices) known = known || (q == md);
      if (!known) seenDevices.push_back(md);
      a = (long) x.d->memoryAllocated();
      m = (long) x.d->maxMemoryAllocated();
    } else if (x.kind == 'd' && h == -2) {
      a = m = -2;
    }
    if (x.in()) {
      bool init = false;
      switch (x.kind) {
      case 'd': init = x.d->isInitialized(); break;
      case 'm': init = x.m->isInitialized(); break;
      case 'p': init = x.p->isInitialized(); break;
      case 'k': init = x.k->isInitialized(); break;
      case 's': init = x.s->isInitialized(); break;
      default:  init = x.t->isInitialized(); break;
      }
      if (init != (h != 0)) h = -3;  // cannot happen unless isInitialized() lies
    }
    if (j) { Hd += ","; A += ","; M += ","; }
    Hd += std::to_string(h);
    A += std::to_string(a);
    M += std::to_string(m);
  }
  for (int k = 0; k < 7; ++k) {
    if (k) { L += ","; D += ","; }
    L += std::to_string(v::live(kinds[k]));
    D += "[";
    long n = v::constructed(kinds[k]);
    for (long i = 1; i <= n; ++i) {
      if (i > 1) D += ",";
      D += std::to_string(v::destroyedCount(kinds[k], i));
    }
    D += "]";
  }
  return std::string("{\"err\":") + (err ? "1" : "0") + ",\"Hd\":" + Hd + "],\"L\":" + L + "],\"D\":" + D +
         "],\"A\":" + A + "],\"M\":" + M + "],\"an\":" + std::to_string(v::anomalies()) + "}";
}

static void doStep(const std::string &a, const std::string &sn, const std::string &tn, long n) {
  Slot &s = slot(sn);
  Slot *tp = tn.empty() ? 0 : &slot(tn);
  if (a == "default") {
    switch (s.kind) {
    case 'd': s.d = new occa::device(); break;
    case 'm': s.m = new occa::memory(); break;
    case 'p': s.p = new occa::memoryPool(); break;
    case 'k': s.k = new occa::kernel(); break;
    case 's': s.s = new occa::stream(); break;
    default:  s.t = new occa::streamTag(); break;
    }
  } else if (a == "copy") {
    Slot &t = *tp;
    switch (s.kind) {
    case 'd': s.d = new occa::device(*t.d); break;
    case 'm': s.m = new occa::memory(*t.m); break;
    case 'p': s.p = new occa::memoryPool(*t.p); break;
    case 'k': s.k = new occa::kernel(*t.k); break;
    case 's': s.s = new occa::stream(*t.s); break;
    default:  s.t = new occa::streamTag(*t.t); break;
    }
  } else if (a == "assign") {
    Slot &t = *tp;
    switch (s.kind) {
    case 'd': *s.d = *t.d; break;
    case 'm': *s.m = *t.m; break;
    case 'p': *s.p = *t.p; break;
    case 'k': *s.k = *t.k; break;
    case 's': *s.s = *t.s; break;
    default:  *s.t = *t.t; break;
    }
  } else if (a == "swap") {
    Slot &t = *tp;
    if (s.kind == 'm') s.m->swap(*t.m);
    else s.p->swap(*t.p);
  } else if (a == "free") {
    switch (s.kind) {
    case 'd': s.d->free(); break;
    case 'm': s.m->free(); break;
    case 'p': s.p->free(); break;
    case 'k': s.k->free(); break;
    case 's': s.s->free(); break;
    default:  s.t->free(); break;
    }
  } else if (a == "exit") {
    s.drop();
  } else if (a == "norefs") {
    switch (s.kind) {
    case 'd': s.d->dontUseRefs(); break;
    case 'm': s.m->dontUseRefs(); break;
    case 'p': s.p->dontUseRefs(); break;
    case 'k': s.k->dontUseRefs(); break;
    case 's': s.s->dontUseRefs(); break;
    default:  s.t->dontUseRefs(); break;
    }
  } else if (a == "newDevice") {
    s.d = new occa::device(modeProps);
  } else if (a == "malloc") {
    if (n == 1) {
      // the use_host_pointer property without a source pointer: an ordinary allocation
      s.m = new occa::memory(tp->d->malloc<char>(bufBytes, NULL, {{"use_host_pointer", true}}));
    } else {
      s.m = new occa::memory(tp->d->malloc<char>(bufBytes));
    }
  } else if (a == "wrap") {
    s.m = new occa::memory(tp->d->wrapMemory<char>(hostBuffer, bufBytes));
  } else if (a == "slice") {
    s.m = new occa::memory(tp->m->slice(0));
  } else if (a == "newPool") {
    s.p = new occa::memoryPool(tp->d->createMemoryPool());
  } else if (a == "reserve") {
    s.m = new occa::memory(tp->p->reserve<char>(cellBytes));
  } else if (a == "resize") {
    s.p->resize((occa::udim_t) n * cellBytes);
  } else if (a == "shrink") {
    s.p->shrinkToFit();
  } else if (a == "buildKernel") {
    s.k = new occa::kernel(tp->d->buildKernelFromBinary(kernelBinary, "k"));
  } else if (a == "createStream") {
    s.s = new occa::stream(tp->d->createStream());
  } else if (a == "tagStream") {
    s.t = new occa::streamTag(tp->d->tagStream());
  } else if (a == "getStream") {
    s.s = new occa::stream(tp->d->getStream());
  } else if (a == "setStream") {
    s.d->setStream(*tp->s);   // s = the device variable, t = the stream variable
  } else {
    fprintf(stderr, "unknown action %s\n", a.c_str());
    exit(2);
  }
}

int main(int argc, char **argv) {
  rc::init(argc, argv);
  if (getenv("HR_MODE")) modeProps = std::string("{mode: '") + getenv("HR_MODE") + "'}";
  bool warm = getenv("HR_WARM") != 0;
  long leakEvery = getenv("HR_LEAKCHECK") ? atol(getenv("HR_LEAKCHECK")) : 0, sinceCheck = 0;
  std::string line;
  while (rc::next(line)) {
    rc::watchdog(300);
    mj::Value b = mj::parse(line);
    const mj::Value &names = b["slots"];
    const mj::Value &steps = b["steps"];
    bool needK = warm;
    for (size_t j = 0; j < steps.size(); ++j) if (steps[j]["a"].str() == "buildKernel") needK = true;
    if (needK) needKernelBinary();
    slots.clear();
    for (size_t j = 0; j < names.size(); ++j) {
      Slot x; x.name = names[j].str(); x.kind = x.name[0];
      slots.push_back(x);
    }
    v::reset();
    std::string out = "{\"beh\":" + std::to_string(rc::cur_beh) + ",\"obs\":[";
    for (size_t j = 0; j < steps.size(); ++j) {
      rc::step(j);
      const mj::Value &st = steps[j];
      bool err = false;
      try {
        doStep(st["a"].str(), st["s"].str(), st["t"].str(), st["n"].i());
      } catch (occa::exception &e) {
        err = true;
      }
      if (j) out += ",";
      out += observe(err);
    }
    // leave the block: destroy what is still in scope, in declaration order
    rc::step(steps.size());
    for (auto &x : slots) x.drop();
    out += "],\"fin\":" + observe(false) + "}";
    rc::emit(out);
    // not part of the history: free the devices (and with them everything else) that dontUseRefs() kept alive
    for (auto *md : seenDevices) {
      if (v::serialOf(v::kDevice, md)) { occa::device h(md); h.free(); }
    }
    seenDevices.clear();
    if (leakEvery > 0 && ++sinceCheck >= leakEvery && &__lsan_do_recoverable_leak_check) {
      sinceCheck = 0;
      if (__lsan_do_recoverable_leak_check())
        rc::emit("{\"leak\":1,\"upto\":" + std::to_string(rc::cur_beh) + "}");
    }
  }
  return 0;
}
