"""oklrun_lib.py -- python side of the generic OKL "translate with all seven translators and execute"
pipeline used by C17, C18 and C19 (reusable for C20).

    batches = [Batch(name, okl_text, kernels=[{"name": k, "runs": [[arg, ...], ...]}, ...]), ...]
    res = execute(ctx, batches, modes=MODES)
    res[(batch_index, mode)] -> BatchResult(translated, terr, module_err, runs)   runs[ki][ri] = dict(out, launches, err)

Steps: (1) every batch is translated in-process by harness/oklrun_replay (ASan+UBSan build of the
library) for every mode; (2) for the five launcher modes the emulated module is built
(harness/emu/emu_build.py) from the unmodified launcher + device sources; (3) harness/oklrun_replay
(fast build) runs every kernel with every argument list: Serial/OpenMP through the real JIT, the
others through the emulation layer.  Python never interprets a kernel: it renders, moves files and
collects what the implementation did.
"""
import os, sys, json, time, threading, concurrent.futures

HARNESS = os.path.dirname(os.path.abspath(__file__))
sys.path.insert(0, os.path.join(HARNESS, "emu"))
sys.dont_write_bytecode = True
import emu_build                                              # noqa: E402
from vlib import Broken, run_replayer, REPO                   # noqa: E402

MODES = ["serial", "openmp", "cuda", "hip", "opencl", "metal", "dpcpp"]
LAUNCHER_MODES = list(emu_build.LAUNCHER_MODES)


class Batch:
    def __init__(self, name, okl_text, kernels, props=None):
        self.name, self.okl_text, self.kernels, self.props = name, okl_text, kernels, (props or {})
        self.path = None


class BatchResult:
    def __init__(self):
        self.translated = False
        self.terr = None          # translator error / crash
        self.module_err = None    # emulated module could not be built (compiler output)
        self.runs = None          # [kernel][run] -> {"out": [[ [idx,val]...]...], "launches": [...], "err": ...}
        self.run_err = None       # replayer-level failure (crash / fatal)
        self.device_src = None
        self.launcher_src = None


def _harness(ctx, variant):
    srcs = ["oklrun_replay.cpp", os.path.join("emu", "emu_core.cpp")]
    # vlib tracks harness/*.hpp only: drop a stale executable when an emu source is newer
    import vlib
    exe = os.path.join(vlib.BROOT, "harness", variant, "oklrun_replay")
    if os.path.exists(exe):
        emu_dir = os.path.join(HARNESS, "emu")
        newest = max(os.path.getmtime(os.path.join(emu_dir, f)) for f in os.listdir(emu_dir)
                     if f.endswith((".hpp", ".cpp")))
        if newest > os.path.getmtime(exe):
            try:
                os.unlink(exe)
            except OSError:
                pass
    return ctx.build_harness("oklrun_replay", srcs, variant=variant, extra=["-rdynamic"])


def _parallel_replay(ctx, exe, env, cases, fanout, timeout):
    """run_replayer over `cases` split into `fanout` chunks; returns (outs by global index, crashes)."""
    if not cases:
        return {}, []
    fanout = max(1, min(fanout, len(cases)))
    chunks = [list(range(i, len(cases), fanout)) for i in range(fanout)]
    outs, crashes, lock = {}, [], threading.Lock()

    def work(ci, idxs):
        time.sleep(0.003 * ci)     # run_replayer names its files by time
        e = dict(env)
        e["OCCA_CACHE_DIR"] = env["OCCA_CACHE_DIR"]
        o, c = run_replayer(ctx, exe, e, [cases[i] for i in idxs], timeout=timeout, max_restarts=len(idxs) + 2)
        with lock:
            for j, rec in o.items():
                outs[idxs[j]] = rec
            for cr in c:
                cr = dict(cr)
                cr["beh"] = idxs[cr["beh"]] if 0 <= cr.get("beh", -1) < len(idxs) else -1
                crashes.append(cr)

    with concurrent.futures.ThreadPoolExecutor(max_workers=fanout) as ex:
        futs = [ex.submit(work, ci, idxs) for ci, idxs in enumerate(chunks)]
        for f in futs:
            f.result()
    return outs, crashes


def execute(ctx, batches, modes=MODES, fanout=4, build_workers=4, translate_variant="fast", run_variant="fast",
            timeout=1500, omp_threads=3, asan_batches=1, asan_modes=None):
    """asan_batches: number of batches (spread evenly) that are ALSO translated by the ASan+UBSan build of the
    library (the sanitized translators are ~40x slower); a sanitizer report or a different output is a terr."""
    translate_variant = os.environ.get("OKLRUN_TRANSLATE_VARIANT", translate_variant)   # development aid
    if os.environ.get("OKLRUN_ASAN_BATCHES"):                                            # development aid
        asan_batches = int(os.environ["OKLRUN_ASAN_BATCHES"])
    t0 = time.time()
    def lap(what):
        ctx.notes.append("%s: %.1fs" % (what, time.time() - t0))
        if os.environ.get("VERIF_TIMING"):
            print("[timing] %s at %.1fs" % (what, time.time() - t0), file=sys.stderr)
    work = os.path.join(ctx.tmp, "okl")
    os.makedirs(work, exist_ok=True)
    for b in batches:
        b.path = os.path.join(work, b.name + ".okl")
        with open(b.path, "w") as f:
            f.write(b.okl_text)
    res = {}
    # ---- 1. translate (in-process translators, sanitized library)
    texe, tlib = _harness(ctx, translate_variant)
    tenv = ctx.occa_env(tlib)
    tcases, tkeys = [], []
    for bi, b in enumerate(batches):
        for m in modes:
            r = res[(bi, m)] = BatchResult()
            r.device_src = os.path.join(work, "%s.%s.device.cpp" % (b.name, m))
            r.launcher_src = os.path.join(work, "%s.%s.launcher.cpp" % (b.name, m))
            tcases.append({"op": "translate", "mode": m, "okl": b.path, "device": r.device_src,
                           "launcher": r.launcher_src, "props": b.props})
            tkeys.append((bi, m))
    lap("translate harness ready")
    outs, crashes = _parallel_replay(ctx, texe, tenv, tcases, fanout, timeout)
    lap("translated %d batch x mode" % len(tcases))
    for c in crashes:
        if c.get("beh", -1) >= 0:
            res[tkeys[c["beh"]]].terr = "translator crashed: %s\n%s" % (c.get("crash"), c.get("log", "")[-1500:])
    for i, key in enumerate(tkeys):
        o = outs.get(i)
        r = res[key]
        if o is None:
            r.terr = r.terr or "no output from the translate step"
        elif o.get("fatal"):
            r.terr = o["fatal"]
        elif not o.get("ok"):
            r.terr = o.get("err") or "translator reported failure"
        else:
            r.translated = True
    # ---- 1b. sanitizer pass over a sample of the batches
    if asan_batches and translate_variant != "asan":
        aexe, alib = _harness(ctx, "asan")
        aenv = ctx.occa_env(alib)
        pick = sorted(set(int(i * len(batches) / asan_batches) for i in range(min(asan_batches, len(batches)))))
        acases, akeys = [], []
        for bi in pick:
            for m in (asan_modes or modes):
                r = res[(bi, m)]
                acases.append({"op": "translate", "mode": m, "okl": batches[bi].path, "device": r.device_src + ".asan",
                               "launcher": r.launcher_src + ".asan", "props": batches[bi].props})
                akeys.append((bi, m))
        outs, crashes = _parallel_replay(ctx, aexe, aenv, acases, fanout, timeout)
        for c in crashes:
            if c.get("beh", -1) >= 0:
                r = res[akeys[c["beh"]]]
                r.translated = False
                r.terr = "translator crashed under ASan/UBSan: %s\n%s" % (c.get("crash"), c.get("log", "")[-2500:])
        for i, key in enumerate(akeys):
            r = res[key]
            if not r.translated:
                continue
            if read_text(r.device_src + ".asan", 10 ** 7) != read_text(r.device_src, 10 ** 7):
                r.translated = False
                r.terr = "sanitized and plain translator outputs differ for %s" % r.device_src
        ctx.notes.append("translation repeated under ASan+UBSan for %d of %d batches" % (len(pick), len(batches)))
        lap("sanitized translation of %d batch x mode" % len(acases))
    # ---- 2. emulated modules
    rexe, rlib = _harness(ctx, run_variant)
    lap("run harness ready")
    lmodes = [m for m in modes if m in LAUNCHER_MODES]
    if lmodes:
        pch = os.path.join(work, "pch")
        try:
            emu_build.build_pch(pch, repo=REPO, libdir=rlib)
        except emu_build.EmuBuildError as e:
            raise Broken(str(e))
        jobs, jkeys = [], []
        for bi, b in enumerate(batches):
            for m in lmodes:
                r = res[(bi, m)]
                if not r.translated:
                    continue
                jobs.append(dict(mode=m, device_src=r.device_src, launcher_src=r.launcher_src,
                                 out_so=os.path.join(work, "%s.%s.so" % (b.name, m)), repo=REPO, libdir=rlib, pch_dir=pch))
                jkeys.append((bi, m))
        for (job, so, err), key in zip(emu_build.build_modules(jobs, workers=build_workers), jkeys):
            if err:
                res[key].module_err = err
    lap("emulated modules built")
    # ---- 3. run
    renv = ctx.occa_env(rlib)
    renv.update({"OMP_NUM_THREADS": str(omp_threads), "OCCA_CXXFLAGS": "-O0", "OCCA_VERBOSE": "0"})
    rcases, rkeys = [], []
    for bi, b in enumerate(batches):
        for m in modes:
            r = res[(bi, m)]
            if not r.translated or r.module_err:
                continue
            c = {"op": "run", "mode": m, "okl": b.path, "kernels": b.kernels, "props": b.props}
            if m in LAUNCHER_MODES:
                c["module"] = os.path.join(work, "%s.%s.so" % (b.name, m))
            rcases.append(c)
            rkeys.append((bi, m))
    outs, crashes = _parallel_replay(ctx, rexe, renv, rcases, fanout, timeout)
    lap("ran %d batch x mode" % len(rcases))
    for c in crashes:
        if c.get("beh", -1) >= 0:
            res[rkeys[c["beh"]]].run_err = "replayer crashed: %s at step %s\n%s" % (c.get("crash"), c.get("step"), c.get("log", "")[-1500:])
    for i, key in enumerate(rkeys):
        o = outs.get(i)
        r = res[key]
        if o is None:
            r.run_err = r.run_err or "no output from the run step"
        elif o.get("fatal"):
            r.run_err = o["fatal"]
        else:
            r.runs = o["res"]
    return res


def read_text(path, limit=20000):
    try:
        return open(path).read()[:limit]
    except OSError:
        return ""
