// C07 replayer: executes DepHash.tla behaviours with real files and real processes.
//   replayer role : <exe> in.ndjson out.ndjson [start]
//     one input line = {"kernel": "<okl text>", "headers": {"h1": "<text>", ...},
//                       "steps": [{"a":"build"} | {"a":"setval|addinc|rminc","h":"h1","file":"<new text>"} ...]}
//     every behaviour gets a fresh directory (kernel, headers, cache; the cache is a copy of
//     $DEPHASH_TEMPLATE when set -- see c07.py -- else empty); an edit step rewrites one
//     header file; a build step starts a FRESH PROCESS (this executable, role --build) that shares
//     the behaviour's OCCA_CACHE_DIR, builds the kernel, runs it and reports the value.
//     output: {"beh":i,"obs":[null | {"status":"ok|SIGSEGV|TIMEOUT|...","val":N,"act":"compiled|loaded","dir":"..","hash":".."}]}
//   build role    : <exe> --build <kernel file> <include dir> <mode> [file|string]
//     ("string": the kernel text is given to device::buildKernelFromString; $DEPHASH_KIND, $DEPHASH_MODE select)
// The replayer holds no model: it writes files, spawns builds, and copies what they print.
#include "replay_core.hpp"
#include <occa.hpp>
#include <occa/internal/io.hpp>
#include <sstream>
#include <sys/stat.h>
#include <sys/wait.h>

static void writeFile(const std::string &path, const std::string &text) {
  std::string tmp = path + ".tmp";
  FILE *f = fopen(tmp.c_str(), "w");
  if (!f) { perror(path.c_str()); exit(2); }
  fwrite(text.data(), 1, text.size(), f);
  fclose(f);
  rename(tmp.c_str(), path.c_str());
}

static int buildRole(int argc, char **argv) {
  if (argc < 5) return 2;
  const std::string kernelFile = argv[2], incDir = argv[3], mode = argv[4];
  try {
    occa::device dev({{"mode", mode}});
    occa::json props;
    props["okl/include_paths"].asArray();
    props["okl/include_paths"] += incDir;
    props["verbose"] = true;
    occa::kernel k;
    if (argc > 5 && std::string(argv[5]) == "string") {
      std::ifstream f(kernelFile);
      std::stringstream ss;
      ss << f.rdbuf();
      k = dev.buildKernelFromString(ss.str(), "k", props);
    } else {
      k = dev.buildKernel(kernelFile, "k", props);
    }
    int out[1] = {-1};
    occa::memory o = dev.malloc<int>(1);
    o.copyFrom(out);
    k(o);
    o.copyTo(out);
    std::string bin = k.binaryFilename();
    std::string dir = occa::io::dirname(bin);
    const std::string cachePath = occa::io::cachePath();
    if (dir.compare(0, cachePath.size(), cachePath) == 0) dir = dir.substr(cachePath.size());
    printf("\nRESULT {\"status\":\"ok\",\"val\":%d,\"dir\":%s,\"hash\":%s}\n", out[0], mj::quote(dir).c_str(),
           mj::quote(k.hash().getFullString()).c_str());
  } catch (std::exception &e) {
    std::string w = e.what();
    printf("\nRESULT {\"status\":\"exception\",\"what\":%s}\n", mj::quote(w.substr(0, 400)).c_str());
  }
  fflush(stdout);
  return 0;
}

static std::string runBuild(const std::string &self, const std::string &kernelFile, const std::string &incDir,
                            const std::string &cacheDir, const std::string &mode, const std::string &kind, int timeoutSec) {
  std::string cmd = "OCCA_CACHE_DIR='" + cacheDir + "' timeout -s KILL " + std::to_string(timeoutSec) + " '" + self +
                    "' --build '" + kernelFile + "' '" + incDir + "' " + mode + " " + kind + " 2>&1";
  FILE *p = popen(cmd.c_str(), "r");
  if (!p) return "{\"status\":\"spawn-failed\"}";
  std::string all;
  char buf[4096];
  size_t n;
  while ((n = fread(buf, 1, sizeof buf, p)) > 0) all.append(buf, n);
  int st = pclose(p);
  int code = WIFEXITED(st) ? WEXITSTATUS(st) : 128 + WTERMSIG(st);
  std::string act = all.find("Loading cached [k]") != std::string::npos ? "loaded"
                  : all.find("Compiling [k]") != std::string::npos ? "compiled" : "unknown";
  size_t r = all.rfind("\nRESULT ");
  if (code == 0 && r != std::string::npos) {
    std::string js = all.substr(r + 8);
    size_t e = js.find('\n');
    if (e != std::string::npos) js = js.substr(0, e);
    // splice the act in
    return js.substr(0, js.size() - 1) + ",\"act\":\"" + act + "\"}";
  }
  const char *what = code == 139 ? "SIGSEGV" : code == 137 ? "TIMEOUT" : code == 134 ? "SIGABRT" : code == 86 ? "ASAN"
                   : code == 87 ? "UBSAN" : "EXIT";
  std::string tail = all.size() > 300 ? all.substr(all.size() - 300) : all;
  return std::string("{\"status\":\"") + what + "\",\"code\":" + std::to_string(code) + ",\"act\":\"" + act +
         "\",\"tail\":" + mj::quote(tail) + "}";
}

int main(int argc, char **argv) {
  if (argc > 1 && std::string(argv[1]) == "--build") return buildRole(argc, argv);
  rc::init(argc, argv);
  const char *w = getenv("DEPHASH_WORK");
  if (!w) { fprintf(stderr, "DEPHASH_WORK not set\n"); return 2; }
  const std::string work = w;
  const std::string mode = getenv("DEPHASH_MODE") ? getenv("DEPHASH_MODE") : "Serial";
  const std::string kind = getenv("DEPHASH_KIND") ? getenv("DEPHASH_KIND") : "file";   // file | string
  const int timeoutSec = getenv("DEPHASH_TIMEOUT") ? atoi(getenv("DEPHASH_TIMEOUT")) : 120;
  char selfBuf[4096];
  ssize_t sl = readlink("/proc/self/exe", selfBuf, sizeof selfBuf - 1);
  if (sl <= 0) return 2;
  selfBuf[sl] = 0;
  const std::string self = selfBuf;
  std::string line;
  while (rc::next(line)) {
    mj::Value b = mj::parse(line);
    const std::string dir = work + "/b" + std::to_string(rc::cur_beh);
    std::string rm = "rm -rf '" + dir + "'";
    if (system(rm.c_str())) return 2;
    mkdir(dir.c_str(), 0755);
    mkdir((dir + "/inc").c_str(), 0755);
    // the cache starts as a copy of a template that only holds the compiler-vendor probe
    // results (so that every history does not re-run the probe compilations)
    const char *tpl = getenv("DEPHASH_TEMPLATE");
    if (tpl) {
      std::string cp = std::string("cp -r '") + tpl + "' '" + dir + "/cache'";
      if (system(cp.c_str())) return 2;
    } else {
      mkdir((dir + "/cache").c_str(), 0755);
    }
    writeFile(dir + "/k.okl", b["kernel"].str());
    for (auto &kv : b["headers"].o) writeFile(dir + "/inc/" + kv.first + ".h", kv.second.str());
    const mj::Value &steps = b["steps"];
    std::string out = "{\"beh\":" + std::to_string(rc::cur_beh) + ",\"obs\":[";
    for (size_t j = 0; j < steps.size(); ++j) {
      rc::step(j);
      const mj::Value &s = steps[j];
      if (j) out += ",";
      if (s["a"].str() == "build") {
        out += runBuild(self, dir + "/k.okl", dir + "/inc", dir + "/cache", mode, kind, timeoutSec);
      } else {
        writeFile(dir + "/inc/" + s["h"].str() + ".h", s["file"].str());
        out += "null";
      }
    }
    rc::emit(out + "]}");
    if (!getenv("DEPHASH_KEEP") && system(rm.c_str())) return 2;
  }
  return 0;
}
