// C26 replayer: executes Props.tla behaviours through the public API.
//   step {"a":"set","sets":[{"t":"settings"|"user"|"extra","p":[keys..],"v":marker},..]}
//        settings -> occa::settings()[path] = v ; user/extra -> the json objects handed to the API
//   step {"a":"create","m":mode}   occa::device(user + {"mode": m})
//   step {"a":"ask","m":mode,"o":"device"|"kernel"|"memory"|"stream"}
//        device  -> properties()
//        object  -> <o>Properties() and <o>Properties(extra)
// Environment PROPS_SETTINGS_VIA=config : the "settings" assignments are NOT executed here; the
// caller has put them into the file $OCCA_CONFIG, which the library loads at start-up (one
// process per behaviour in that mode).
// The replayer has no model: it prints the dumps, python compares them with the spec's prediction.
#include "replay_core.hpp"
#include <occa.hpp>
#include <occa/internal/utils/env.hpp>
#include <map>

static std::string pathOf(const mj::Value &p) {
  std::string s;
  for (size_t i = 0; i < p.size(); ++i) {
    if (i) s += "/";
    s += p[i].str();
  }
  return s;
}

int main(int argc, char **argv) {
  rc::init(argc, argv);
  const bool viaConfig = getenv("PROPS_SETTINGS_VIA") && std::string(getenv("PROPS_SETTINGS_VIA")) == "config";
  std::string line;
  while (rc::next(line)) {
    mj::Value b = mj::parse(line);
    const mj::Value &steps = b["steps"];
    // fresh global settings (what a new process starts with), fresh user / per-call trees
    occa::settings() = occa::env::baseSettings();
    occa::json user, extra;
    std::map<std::string, occa::device> devs;
    std::string out = "{\"beh\":" + std::to_string(rc::cur_beh) + ",\"obs\":[";
    for (size_t j = 0; j < steps.size(); ++j) {
      rc::step(j);
      const mj::Value &s = steps[j];
      const std::string &a = s["a"].str();
      std::string res;
      try {
        if (a == "set") {
          const mj::Value &sets = s["sets"];
          for (size_t k = 0; k < sets.size(); ++k) {
            const std::string &t = sets[k]["t"].str();
            const std::string path = pathOf(sets[k]["p"]);
            const std::string &v = sets[k]["v"].str();
            if (t == "settings") { if (!viaConfig) occa::settings()[path] = v; }
            else if (t == "user") user[path] = v;
            else if (t == "extra") extra[path] = v;
            else { fprintf(stderr, "unknown tree %s\n", t.c_str()); return 2; }
          }
          res = "{}";
        } else if (a == "create") {
          const std::string &m = s["m"].str();
          occa::json props = user;
          props["mode"] = m;
          devs[m] = occa::device(props);
          res = "{\"mode\":" + mj::quote(devs[m].mode()) + "}";
        } else if (a == "ask") {
          occa::device &d = devs[s["m"].str()];
          const std::string &o = s["o"].str();
          if (o == "device") {
            res = "{\"p0\":" + d.properties().dump(0) + "}";
          } else {
            occa::json p0, p;
            if (o == "kernel") { p0 = d.kernelProperties(); p = d.kernelProperties(extra); }
            else if (o == "memory") { p0 = d.memoryProperties(); p = d.memoryProperties(extra); }
            else if (o == "stream") { p0 = d.streamProperties(); p = d.streamProperties(extra); }
            else { fprintf(stderr, "unknown object %s\n", o.c_str()); return 2; }
            res = "{\"p0\":" + p0.dump(0) + ",\"p\":" + p.dump(0) + "}";
          }
        } else { fprintf(stderr, "unknown action %s\n", a.c_str()); return 2; }
      } catch (std::exception &e) {
        res = "{\"err\":" + mj::quote(e.what()) + "}";
      }
      if (j) out += ",";
      out += res;
    }
    // the per-call trees must not have been modified by the library
    out += "],\"settings\":" + occa::settings().dump(0) + "}";
    devs.clear();
    rc::emit(out);
  }
  return 0;
}
