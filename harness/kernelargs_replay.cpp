// C10 replayer: builds ONE @kernel per case from an OKL source string and launches it with every
// argument list of the case; reports runs / raises per list and whether the kernel was compiled by
// this process or loaded from the cache.  No model in here.
//   case {"name":kernel,"source":okl,"lists":[[argid,..],..]}   argid: "mem:<dtype>" | "scalar:<type>" | "null"
#include "replay_core.hpp"
#include <occa.hpp>
#include <sys/stat.h>
#include <ctime>
#include <map>

static occa::device device;
static std::map<std::string, occa::memory> mems;
static occa::dtype_t S2("S2"), C("C", 4);   // memory element types must be registered

static occa::memory memOf(const std::string &id) {
  auto it = mems.find(id);
  if (it != mems.end()) return it->second;
  occa::memory m;
  if (id == "mem:byte") m = device.malloc(64);
  else if (id == "mem:float") m = device.malloc<float>(16);
  else if (id == "mem:int") m = device.malloc<int>(16);
  else if (id == "mem:double") m = device.malloc<double>(16);
  else if (id == "mem:char") m = device.malloc<char>(16);
  else if (id == "mem:float2") m = device.malloc(16, occa::dtype::float2);
  else if (id == "mem:S2") m = device.malloc(16, S2);
  else if (id == "mem:C") m = device.malloc(16, C);
  else if (id.compare(0, 4, "mem:") == 0 && &occa::dtype_t::getBuiltin(id.substr(4)) != &occa::dtype::none)
    m = device.malloc(16, occa::dtype_t::getBuiltin(id.substr(4)));    // any registered builtin by name
  else { fprintf(stderr, "unknown memory %s\n", id.c_str()); exit(2); }
  mems[id] = m;
  return m;
}

int main(int argc, char **argv) {
  rc::init(argc, argv);
  struct timespec started;
  clock_gettime(CLOCK_REALTIME, &started);
  device.setup(std::string("{mode: 'Serial'}"));
  S2.addField("x", occa::dtype::float_).addField("y", occa::dtype::float_);
  S2.registerType();
  C.registerType();
  std::string line;
  while (rc::next(line)) {
    mj::Value c = mj::parse(line);
    std::string out = "{\"beh\":" + std::to_string(rc::cur_beh);
    try {
      occa::kernel k = device.buildKernelFromString(c["source"].str(), c["name"].str());
      struct stat st;
      const bool have = stat(k.binaryFilename().c_str(), &st) == 0;
      out += std::string(",\"built\":\"") + (!have ? "nobinary" : ((st.st_mtim.tv_sec > started.tv_sec || (st.st_mtim.tv_sec == started.tv_sec && st.st_mtim.tv_nsec >= started.tv_nsec)) ? "compiled" : "cached")) + "\",\"res\":[";
      const mj::Value &lists = c["lists"];
      for (size_t i = 0; i < lists.size(); ++i) {
        rc::step(i);
        std::string r;
        try {
          k.clearArgs();
          for (size_t j = 0; j < lists[i].size(); ++j) {
            const std::string &id = lists[i][j].str();
            if (id == "null") k.pushArg(occa::null);
            else if (id == "scalar:int") k.pushArg((int) 1);
            else if (id == "scalar:float") k.pushArg(1.0f);
            else if (id == "scalar:double") k.pushArg(1.0);
            else k.pushArg(memOf(id));
          }
          k.run();
          r = "runs";
        } catch (occa::exception &e) {
          const std::string m = e.what();
          r = m.find("argument") != std::string::npos && m.find("received") != std::string::npos ? "raises:count"
            : m.find("expects an occa::memory") != std::string::npos ? "raises:wants-memory"
            : m.find("expects a non-occa::memory") != std::string::npos ? "raises:wants-value"
            : m.find("wrong runtime type") != std::string::npos ? "raises:type" : "raises:other";
        }
        out += (i ? ",\"" : "\"") + r + "\"";
      }
      out += "]";
      k.free();
    } catch (std::exception &e) {
      out += ",\"err\":" + mj::quote(std::string(e.what()).substr(0, 400));
    }
    rc::emit(out + "}");
  }
  return 0;
}
