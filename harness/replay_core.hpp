// replay_core.hpp -- shared plumbing of the replayers/drivers.
//   usage of every harness:  <exe> <in.ndjson> <out.ndjson> [start-index]
// One input line = one behaviour (or one case); the harness writes one output line per
// behaviour with what the implementation did.  A crash (signal, sanitizer report, escaped
// C++ exception) is attributed to the behaviour/step being executed: a line
//   {"crash":"<what>","beh":<i>,"step":<j>}
// is written with async-signal-safe calls and the process exits with code 70, so that the
// python side can record it and restart after the offending behaviour.
#pragma once
#include <csignal>
#include <cstdio>
#include <cstdlib>
#include <cstring>
#include <exception>
#include <fstream>
#include <iostream>
#include <string>
#include <unistd.h>
#include <fcntl.h>

#include "mini_json.hpp"

extern "C" void __sanitizer_set_death_callback(void (*)(void)) __attribute__((weak));

namespace rc {
static int out_fd = 1;
static volatile long cur_beh = -1, cur_step = -1;
static std::ifstream in;
static long start_index = 0;
static std::string pending;  // buffered output of the current behaviour

static void raw_write(const char *s) { ssize_t r = write(out_fd, s, strlen(s)); (void)r; }
static void itoa_write(long v) {
  char b[32]; int i = 30; b[31] = 0; bool neg = v < 0; if (neg) v = -v;
  if (v == 0) b[i--] = '0';
  while (v > 0) { b[i--] = '0' + (v % 10); v /= 10; }
  if (neg) b[i--] = '-';
  raw_write(b + i + 1);
}
static void crash_line(const char *what) {
  raw_write("{\"crash\":\""); raw_write(what); raw_write("\",\"beh\":"); itoa_write(cur_beh);
  raw_write(",\"step\":"); itoa_write(cur_step); raw_write("}\n");
}
static void on_signal(int sig) {
  const char *n = sig == SIGSEGV ? "SIGSEGV" : sig == SIGFPE ? "SIGFPE" : sig == SIGABRT ? "SIGABRT"
                : sig == SIGBUS ? "SIGBUS" : sig == SIGALRM ? "TIMEOUT" : sig == SIGILL ? "SIGILL" : "SIGNAL";
  crash_line(n);
  _exit(70);
}
static void on_sanitizer_death() { crash_line("SANITIZER"); }
static void on_terminate() {
  crash_line("TERMINATE");
  _exit(70);
}
inline void init(int argc, char **argv) {
  if (argc < 3) { fprintf(stderr, "usage: %s in out [start]\n", argv[0]); exit(2); }
  in.open(argv[1]);
  out_fd = open(argv[2], O_WRONLY | O_CREAT | O_APPEND, 0644);
  if (argc > 3) start_index = atol(argv[3]);
  std::set_terminate(on_terminate);
  struct sigaction sa; memset(&sa, 0, sizeof sa); sa.sa_handler = on_signal;
  // with ASan the SEGV/BUS/FPE handlers belong to the sanitizer (it prints a report and calls
  // the death callback); install ours only for the rest
  if (&__sanitizer_set_death_callback) {
    __sanitizer_set_death_callback(on_sanitizer_death);
    sigaction(SIGABRT, &sa, 0); sigaction(SIGALRM, &sa, 0); sigaction(SIGFPE, &sa, 0);
  } else {
    int sigs[] = {SIGSEGV, SIGFPE, SIGABRT, SIGBUS, SIGALRM, SIGILL};
    for (int s : sigs) sigaction(s, &sa, 0);
  }
}
// next behaviour line; returns false at end.  Lines before start_index are skipped.
inline bool next(std::string &line) {
  while (std::getline(in, line)) {
    ++cur_beh; cur_step = -1;
    if (cur_beh < start_index) continue;
    if (line.empty()) continue;
    return true;
  }
  return false;
}
inline void step(long j) { cur_step = j; }
inline void emit(const std::string &s) { std::string t = s + "\n"; ssize_t r = write(out_fd, t.data(), t.size()); (void)r; }
inline void watchdog(unsigned seconds) { alarm(seconds); }
}  // namespace rc
