// C24 replayer: builds JsonText.tla documents through the occa::json API, and after every step
// dumps / parses / re-dumps / hashes them with several indentations.  No model in here: the
// replayer prints what the implementation did; python compares with the spec.
//   input line : {"indents":[0,2,...], "steps":[{"a":"root"|"put"|"push","p":[{"key":..}|{"idx":n}],
//                 "key":"..","v":<leaf>}], "final":<tree>}
//        leaf  : {"k":"null"} {"k":"bool","b":0|1} {"k":"num","t":"u8"|..|"f64","lit":"..."}
//                {"k":"str","s":".."} {"k":"arr"} {"k":"obj"}
//        tree  : leaf, or {"k":"arr","c":[tree..]}, {"k":"obj","ks":[".."],"c":[tree..]}
//   output line: {"beh":i,"obs":[{"S":<structure of doc>,"D":[{"i":indent,"t":text,"p":"ok"|"err",
//                 "eq":0|1,"PS":"="|<structure of parsed>,"fix":0|1,"h":0|1,"det":0|1}..]}..],
//                 "R":{"eq":0|1,"t":0|1,"h":0|1,"S":"="|<structure>}}
#include "replay_core.hpp"
#include <occa/types/json.hpp>
#include <cstdint>
#include <cstring>

using occa::json;

static std::string q(const std::string &s) { return mj::quote(s); }
static bool ubsan_halts = false;
extern "C" void __ubsan_on_report(void) { if (ubsan_halts) rc::crash_line("UBSAN"); }

// ---- structure of a json value as the API shows it (type tests + accessors only)
static std::string bits64(double d) {
  uint64_t u; memcpy(&u, &d, 8);
  char b[24]; snprintf(b, sizeof b, "%016llx", (unsigned long long) u);
  return b;
}
static std::string S(const json &j) {
  if (!j.isInitialized()) return "~";
  if (j.isNull()) return "null";
  if (j.isBool()) return j.boolean() ? "B1" : "B0";
  if (j.isNumber()) {
    const occa::primitive &p = j.number();
    if (p.isFloat()) return "F" + bits64((double) p);
    if (p.isUnsigned()) return "I" + std::to_string((unsigned long long) (uint64_t) p);
    return "I" + std::to_string((long long) (int64_t) p);
  }
  if (j.isString()) return q(j.string());
  if (j.isArray()) {
    std::string o = "[";
    for (const json &e : j.array()) o += S(e) + ",";
    return o + "]";
  }
  if (j.isObject()) {
    std::string o = "{";
    for (const auto &kv : j.object()) o += q(kv.first) + ":" + S(kv.second) + ",";
    return o + "}";
  }
  return "?";
}

// ---- leaves, built through the typed constructors / assignments
static json leaf(const mj::Value &v, int variant) {
  const std::string &k = v["k"].str();
  if (k == "null") { json j; j.asNull(); return j; }
  if (k == "bool") { if (variant & 1) return json((bool) v["b"].i()); json j; j = (bool) v["b"].i(); return j; }
  if (k == "str")  { if (variant & 1) return json(v["s"].str()); json j; j = v["s"].str(); return j; }
  if (k == "arr")  { return json(json::array_); }
  if (k == "obj")  { if (variant & 1) return json(json::object_); json j; j.asObject(); return j; }
  if (k == "num") {
    const std::string &t = v["t"].str();
    const char *lit = v["lit"].str().c_str();
    json j;
#define INT_CASE(name, type, conv) \
    if (t == name) { type x = (type) conv(lit, 0, 10); if (variant & 1) return json(x); j = x; return j; }
    INT_CASE("u8", uint8_t, strtoull) INT_CASE("u16", uint16_t, strtoull)
    INT_CASE("u32", uint32_t, strtoull) INT_CASE("u64", uint64_t, strtoull)
    INT_CASE("i8", int8_t, strtoll) INT_CASE("i16", int16_t, strtoll)
    INT_CASE("i32", int32_t, strtoll) INT_CASE("i64", int64_t, strtoll)
#undef INT_CASE
    if (t == "f32") { float x = strtof(lit, 0); if (variant & 1) return json(x); j = x; return j; }
    if (t == "f64") { double x = strtod(lit, 0); if (variant & 1) return json(x); j = x; return j; }
  }
  fprintf(stderr, "bad leaf kind %s\n", k.c_str()); exit(2);
}

// the node a path leads to (keys go through the map accessor: keys may contain '/')
static json &walk(json &root, const mj::Value &p) {
  json *j = &root;
  for (size_t i = 0; i < p.size(); ++i) {
    if (p[i].has("key")) j = &(j->object()[p[i]["key"].str()]);
    else j = &(j->array()[(size_t) p[i]["idx"].i()]);
  }
  return *j;
}

// the whole tree once more, children inserted in reverse order, other spellings of the API
static json build(const mj::Value &t) {
  const std::string &k = t["k"].str();
  if (k == "arr" && t.has("c")) {
    json j(json::array_);
    const mj::Value &c = t["c"];
    j.array().resize(c.size());
    for (size_t i = c.size(); i-- > 0;) j.array()[i] = build(c[i]);
    return j;
  }
  if (k == "obj" && t.has("c")) {
    json j(json::object_);
    const mj::Value &c = t["c"], &ks = t["ks"];
    for (size_t i = c.size(); i-- > 0;) j.object()[ks[i].str()] = build(c[i]);
    return j;
  }
  return leaf(t, 0);
}

static std::string observe(const json &doc, const mj::Value &indents) {
  const std::string sd = S(doc);
  std::string out = "{\"S\":" + q(sd) + ",\"D\":[";
  for (size_t n = 0; n < indents.size(); ++n) {
    const int ind = (int) indents[n].i();
    const std::string text = doc.dump(ind);
    const bool det = (doc.dump(ind) == text);
    std::string status = "ok", ps = "=";
    int eq = 0, fix = 0, h = 0;
    try {
      json p = json::parse(text);
      eq = (p == doc) ? 1 : 0;
      const std::string sp = S(p);
      if (sp != sd) ps = sp;
      fix = (p.dump(ind) == text) ? 1 : 0;
      h = (p.hash() == doc.hash() && p.hash().getFullString() == doc.hash().getFullString()) ? 1 : 0;
    } catch (std::exception &e) { status = "err"; }
    if (n) out += ",";
    out += "{\"i\":" + std::to_string(ind) + ",\"t\":" + q(text) + ",\"p\":\"" + status + "\",\"eq\":" +
           std::to_string(eq) + ",\"PS\":" + q(ps) + ",\"fix\":" + std::to_string(fix) + ",\"h\":" +
           std::to_string(h) + ",\"det\":" + (det ? "1" : "0") + "}";
  }
  return out + "]}";
}

int main(int argc, char **argv) {
  rc::init(argc, argv);
  ubsan_halts = getenv("UBSAN_OPTIONS") && strstr(getenv("UBSAN_OPTIONS"), "halt_on_error=1");
  std::string line;
  while (rc::next(line)) {
    mj::Value b = mj::parse(line);
    const mj::Value &steps = b["steps"], &indents = b["indents"];
    json doc;
    std::string out = "{\"beh\":" + std::to_string(rc::cur_beh) + ",\"obs\":[";
    for (size_t j = 0; j < steps.size(); ++j) {
      rc::step(j);
      const mj::Value &s = steps[j];
      const std::string &a = s["a"].str();
      const int variant = (int) ((rc::cur_beh + j) & 3);
      std::string err;
      try {
        if (a == "root") doc = leaf(s["v"], variant);
        else if (a == "put") {
          json &n = walk(doc, s["p"]);
          const std::string &key = s["key"].str();
          // set() takes a C string: only for keys without NUL
          if ((variant & 2) && key.find('\0') == std::string::npos) n.set(key, leaf(s["v"], variant));
          else n.object()[key] = leaf(s["v"], variant);
        } else if (a == "push") {
          json &n = walk(doc, s["p"]);
          if (variant & 2) n += leaf(s["v"], variant);
          else n.array().push_back(leaf(s["v"], variant));
        } else { fprintf(stderr, "unknown action %s\n", a.c_str()); return 2; }
      } catch (std::exception &e) { err = e.what(); }
      if (j) out += ",";
      if (!err.empty()) { out += "{\"err\":" + q(err) + "}"; continue; }
      out += observe(doc, indents);
    }
    out += "]";
    if (b.has("final")) {
      rc::step(steps.size());
      json again = build(b["final"]);
      const int eq = (again == doc) && (doc == again);
      int t = 1;
      for (size_t n = 0; n < indents.size(); ++n) t = t && (again.dump((int) indents[n].i()) == doc.dump((int) indents[n].i()));
      const int h = (again.hash() == doc.hash()) && (occa::hash(again).getFullString() == occa::hash(doc).getFullString());
      const std::string sa = S(again), sd = S(doc);
      out += ",\"R\":{\"eq\":" + std::to_string(eq) + ",\"t\":" + std::to_string(t) + ",\"h\":" + std::to_string(h) +
             ",\"S\":" + q(sa == sd ? "=" : sa) + "}";
    }
    rc::emit(out + "}");
  }
  return 0;
}
