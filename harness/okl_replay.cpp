// C22 / C16 replayer: runs the seven OKL translators in-process on one source text per case.
//   input  line: {"src": "<OKL text>"}            (optional "modes": "sochlmd" subset letters)
//   output line: {"beh":i,"r":{"serial":{"o":"ok|err|exc|stdexc","a":0|1,"p":0|1,"e":"first error line"}, ...}}
//     o = outcome: ok      parser.succeeded() (for launcher backends: also launcherParser.success)
//                  err     success flag false (errors were reported)
//                  exc     occa::exception escaped parseSource / printing
//                  stdexc  any other C++ exception escaped (not allowed by C16)
//     a = afterParsing() was reached (the generic front end accepted the text)
//     p = printing the result (toString of device and launcher source, setSourceMetadata) was done
//     e = first line of the translator's error output that contains "Error" (diagnostic only)
// The harness holds no model of OKL: it maps mode names to parser classes and reports flags.
// Crashes, sanitizer reports and time-outs are attributed to the case by replay_core
// (rc::cur_step = index of the translator that was running).
#include "replay_core.hpp"

#include <occa/internal/io/output.hpp>
#include <occa/internal/lang/modes/serial.hpp>
#include <occa/internal/lang/modes/openmp.hpp>
#include <occa/internal/lang/modes/cuda.hpp>
#include <occa/internal/lang/modes/hip.hpp>
#include <occa/internal/lang/modes/opencl.hpp>
#include <occa/internal/lang/modes/metal.hpp>
#include <occa/internal/lang/modes/dpcpp.hpp>
#include <occa/internal/lang/kernelMetadata.hpp>
#include <occa/utils/exception.hpp>

#include <dlfcn.h>
#include <occa/internal/lang/operator.hpp>

using namespace occa::lang;

// Speed shim (harness only, no change in /repo).  Constructing any parser defines ~25 builtin
// macros and every macro definition constructs a tokenizer_t, whose setup() fills the operator
// trie with autoFreeze on (the trie is rebuilt after each of ~70 add()s).  Under ASan this
// costs ~40 ms per translator run and dominates everything.  The executable interposes
// occa::lang::getOperators: it switches autoFreeze off on the (fresh, empty) trie and calls the
// library's own function; tokenizer_t::setup() freezes the trie explicitly right afterwards,
// so the resulting trie is the same.  OKL_NO_SHIM=1 disables the shim (the check compares a
// sample of cases with and without it).
namespace occa { namespace lang {
void getOperators(operatorTrie &operators) {
  typedef void (*fn_t)(operatorTrie &);
  static fn_t real = (fn_t) dlsym(RTLD_NEXT, "_ZN4occa4lang12getOperatorsERNS_4trieIPKNS0_10operator_tEEE");
  static const bool noShim = getenv("OKL_NO_SHIM") && atoi(getenv("OKL_NO_SHIM"));
  if (!real) { fprintf(stderr, "okl_replay: getOperators not found\n"); _exit(3); }
  if (!noShim) operators.autoFreeze = false;
  real(operators);
}
}}

static std::string errbuf;
static void swallow(const char *s) {
  if (errbuf.size() < 4000) errbuf += s;
}

static std::string firstError() {
  // first line mentioning "Error" with the ANSI colour codes removed
  std::string clean;
  for (size_t i = 0; i < errbuf.size(); ++i) {
    if (errbuf[i] == '\033') { while (i < errbuf.size() && errbuf[i] != 'm') ++i; continue; }
    clean += errbuf[i];
  }
  size_t p = clean.find("Error");
  if (p == std::string::npos) return "";
  size_t e = clean.find('\n', p);
  std::string l = clean.substr(p, e == std::string::npos ? std::string::npos : e - p);
  if (l.size() > 160) l.resize(160);
  return l;
}

template <class P>
struct Probe : public P {
  bool reached = false;
  Probe(const occa::json &s) : P(s) {}
  void afterParsing() override { reached = true; P::afterParsing(); }
};

struct Res { const char *o; bool a, p; std::string e; };

template <class P>
static bool launcherOk(Probe<P> &p, std::true_type) { return p.launcherParser.success; }
template <class P>
static bool launcherOk(Probe<P> &, std::false_type) { return true; }
template <class P>
static void printLauncher(Probe<P> &p, std::true_type) {
  std::string s = p.launcherParser.toString();
  (void) s;
  sourceMetadata_t md;
  p.launcherParser.setSourceMetadata(md);
}
template <class P>
static void printLauncher(Probe<P> &, std::false_type) {}

template <class P>
static Res runOne(const std::string &src, const std::string &mode, bool doPrint) {
  Res r{"err", false, false, ""};
  errbuf.clear();
  typedef typename std::is_base_of<okl::withLauncher, P>::type hasLauncher;
  Probe<P> *parser = nullptr;
  try {
    occa::json props;
    props["mode"] = mode;
    parser = new Probe<P>(props);
    parser->parseSource(src);
    r.a = parser->reached;
    const bool ok = parser->succeeded() && launcherOk(*parser, hasLauncher());
    r.o = ok ? "ok" : "err";
    if (ok && doPrint) {
      std::string s = parser->toString();
      (void) s;
      sourceMetadata_t md;
      parser->setSourceMetadata(md);
      printLauncher(*parser, hasLauncher());
      r.p = true;
    }
  } catch (occa::exception &e) {
    r.o = "exc";
    if (parser) r.a = parser->reached;
    errbuf += std::string("Error(exception): ") + e.message + "\n";
  } catch (std::exception &e) {
    r.o = "stdexc";
    if (parser) r.a = parser->reached;
    errbuf += std::string("Error(std::exception): ") + e.what() + "\n";
  }
  r.e = firstError();
  delete parser;
  return r;
}

// a hang is reported with the stack it hangs in (so that the check can name the site)
extern "C" void __sanitizer_print_stack_trace(void) __attribute__((weak));
extern "C" void __asan_on_error(void);
static volatile sig_atomic_t in_report = 0;
extern "C" void __asan_on_error(void) { in_report = 1; alarm(120); }   // a report is being printed
static void on_alarm(int) {
  // if anything below blocks (e.g. the alarm interrupted the sanitizer while it held a lock),
  // the next SIGALRM kills the process with the default action
  signal(SIGALRM, SIG_DFL);
  alarm(10);
  if (in_report) { rc::crash_line("SANITIZER-SLOW"); _exit(70); }
  if (&__sanitizer_print_stack_trace) __sanitizer_print_stack_trace();
  rc::crash_line("TIMEOUT");
  _exit(70);
}

static const char *NAMES[7] = {"serial", "openmp", "cuda", "hip", "opencl", "metal", "dpcpp"};
static const char LETTER[8] = "sochlmd";

int main(int argc, char **argv) {
  rc::init(argc, argv);
  { struct sigaction sa; memset(&sa, 0, sizeof sa); sa.sa_handler = on_alarm; sigaction(SIGALRM, &sa, 0); }
  occa::io::stderr.setOverride(swallow);
  occa::io::stdout.setOverride(swallow);
  const unsigned wd = getenv("OKL_WATCHDOG") ? atoi(getenv("OKL_WATCHDOG")) : 20;
  const bool doPrint = !(getenv("OKL_NOPRINT") && atoi(getenv("OKL_NOPRINT")));
  std::string line;
  while (rc::next(line)) {
    mj::Value c = mj::parse(line);
    const std::string &src = c["src"].str();
    const std::string modes = c.has("modes") ? c["modes"].str() : std::string(LETTER);
    std::string out = "{\"beh\":" + std::to_string(rc::cur_beh) + ",\"r\":{";
    bool first = true;
    for (int m = 0; m < 7; ++m) {
      if (modes.find(LETTER[m]) == std::string::npos) continue;
      rc::step(m);
      // progress marker on stdout: lets the check attribute a death without crash line
      // (UBSan's halt_on_error does not run the death callback) to case and translator
      printf("@@ %ld %d\n", (long) rc::cur_beh, m); fflush(stdout);
      rc::watchdog(wd);
      Res r;
      switch (m) {
        case 0: r = runOne<okl::serialParser>(src, "serial", doPrint); break;
        case 1: r = runOne<okl::openmpParser>(src, "openmp", doPrint); break;
        case 2: r = runOne<okl::cudaParser>(src, "cuda", doPrint); break;
        case 3: r = runOne<okl::hipParser>(src, "hip", doPrint); break;
        case 4: r = runOne<okl::openclParser>(src, "opencl", doPrint); break;
        case 5: r = runOne<okl::metalParser>(src, "metal", doPrint); break;
        default: r = runOne<okl::dpcppParser>(src, "dpcpp", doPrint); break;
      }
      rc::watchdog(0);
      if (!first) out += ",";
      first = false;
      out += std::string("\"") + NAMES[m] + "\":{\"o\":\"" + r.o + "\",\"a\":" + (r.a ? "1" : "0") +
             ",\"p\":" + (r.p ? "1" : "0") + ",\"e\":" + mj::quote(r.e) + "}";
    }
    rc::emit(out + "}}");
  }
  return 0;
}
