// oklrun_replay.cpp -- generic "translate and execute OKL kernels on every backend" replayer
// (C17, C18, C19; reusable for C20).  Deliberately dumb: no model of loops, tiles or indices.
//
//   usage: oklrun_replay <in.ndjson> <out.ndjson> [start]
// One input line = one case:
//   {"op":"translate","mode":M,"okl":path,"device":path,"launcher":path,"props":{...}}
//        runs the in-process translator occa::lang::okl::<M>Parser on the file and writes the
//        translated device source (and, for launcher modes, the launcher source) unmodified.
//        -> {"beh":i,"ok":true|false}
//   {"op":"run","mode":M,"okl":path | "module":path.so,"kernels":[{"name":k,"runs":[[arg,...],...]}]}
//        arg = {"t":"int"|"long","v":n}  |  {"t":"int*"|"long*","n":cells}   (zero-filled, returned)
//              pointer options: "fill":"iota" (cell i holds i+1), "ret":false (not returned)
//        Serial/OpenMP: the kernel is built by the real JIT (device.buildKernel) and run;
//        cuda/hip/opencl/metal/dpcpp: the emulated module (harness/emu) is loaded and the real
//        generated launcher + device function are executed.
//        -> {"beh":i,"res":[[{"out":[[[idx,val],...],...],"launches":[...],"err":null|"..."}]]}
//           "out" lists the non-zero cells of every pointer argument.
#include "replay_core.hpp"
#include "emu/emu_host.hpp"

#include <occa/internal/lang/modes/serial.hpp>
#include <occa/internal/lang/modes/openmp.hpp>
#include <occa/internal/lang/modes/cuda.hpp>
#include <occa/internal/lang/modes/hip.hpp>
#include <occa/internal/lang/modes/opencl.hpp>
#include <occa/internal/lang/modes/metal.hpp>
#include <occa/internal/lang/modes/dpcpp.hpp>
#include <occa/internal/io.hpp>

using namespace occa;

static occa::json toOccaJson(const mj::Value &v) {
  occa::json j;
  switch (v.kind) {
    case mj::Value::Null: return occa::json(occa::json::null_);
    case mj::Value::Bool: j = v.b; return j;
    case mj::Value::Num: if (v.isInt) j = (long) v.n; else j = v.d; return j;
    case mj::Value::Str: j = v.s; return j;
    case mj::Value::Arr: j.asArray(); for (auto &x : v.a) j += toOccaJson(x); return j;
    case mj::Value::Obj: j.asObject(); for (auto &kv : v.o) j[kv.first] = toOccaJson(kv.second); return j;
  }
  return j;
}

static lang::parser_t *makeParser(const std::string &mode, const occa::json &props) {
  if (mode == "serial") return new lang::okl::serialParser(props);
  if (mode == "openmp") return new lang::okl::openmpParser(props);
  if (mode == "cuda") return new lang::okl::cudaParser(props);
  if (mode == "hip") return new lang::okl::hipParser(props);
  if (mode == "opencl") return new lang::okl::openclParser(props);
  if (mode == "metal") return new lang::okl::metalParser(props);
  if (mode == "dpcpp") return new lang::okl::dpcppParser(props);
  return NULL;
}
static bool isLauncherMode(const std::string &m) { return m != "serial" && m != "openmp"; }

static void writeFile(const std::string &path, const std::string &text) {
  FILE *f = fopen(path.c_str(), "w");
  if (!f) throw std::runtime_error("cannot write " + path);
  fwrite(text.data(), 1, text.size(), f);
  fclose(f);
}

static std::string doTranslate(const mj::Value &c) {
  const std::string mode = c["mode"].str();
  occa::json props = c.has("props") ? toOccaJson(c["props"]) : occa::json();
  props["mode"] = mode;
  std::string err;
  bool ok = false;
  lang::parser_t *parser = makeParser(mode, props);
  try {
    parser->parseFile(c["okl"].str());
    ok = parser->succeeded();
    if (ok) {
      writeFile(c["device"].str(), parser->toString());
      if (isLauncherMode(mode))
        writeFile(c["launcher"].str(), ((lang::okl::withLauncher *) parser)->launcherParser.toString());
    }
  } catch (std::exception &e) { err = e.what(); ok = false; }
  delete parser;
  return std::string("\"ok\":") + (ok ? "true" : "false") + ",\"err\":" + (err.empty() ? "null" : mj::quote(err.substr(0, 400)));
}

struct ArgBuf { std::string t; size_t n; occa::memory mem; long long v; bool ret; };

template <class T> static std::string sparse(occa::memory &m, size_t n) {
  std::vector<T> h(n);
  m.copyTo(h.data(), (occa::dim_t) n);   // entries of the memory's dtype
  std::string s = "[";
  bool first = true;
  for (size_t i = 0; i < n; ++i)
    if (h[i] != 0) {
      if (!first) s += ",";
      first = false;
      s += "[" + std::to_string(i) + "," + std::to_string((long long) h[i]) + "]";
    }
  return s + "]";
}

static std::string launchesJson(const emu::RunResult &r) {
  std::string s = "[";
  for (size_t i = 0; i < r.launches.size(); ++i) {
    const emu::launch_record &l = r.launches[i];
    if (i) s += ",";
    s += "{\"k\":" + mj::quote(l.kernel) + ",\"outer\":[" + std::to_string(l.outer[0]) + "," + std::to_string(l.outer[1]) + "," +
         std::to_string(l.outer[2]) + "],\"inner\":[" + std::to_string(l.inner[0]) + "," + std::to_string(l.inner[1]) + "," +
         std::to_string(l.inner[2]) + "],\"code\":" + std::to_string(l.st.code) + ",\"divergent\":" +
         std::to_string(l.st.divergent_barriers) + ",\"msg\":" + mj::quote(l.st.msg) + "}";
  }
  return s + "]";
}

static std::map<std::string, occa::device> devices;
static occa::device &getDevice(const std::string &mode) {
  auto it = devices.find(mode);
  if (it != devices.end()) return it->second;
  occa::json p;
  p["mode"] = (mode == "openmp") ? "OpenMP" : "Serial";
  devices[mode] = occa::device(p);
  return devices[mode];
}

static std::string doRun(const mj::Value &c) {
  const std::string mode = c["mode"].str();
  const bool emulated = isLauncherMode(mode);
  occa::device &dev = getDevice(emulated ? "serial" : mode);
  occa::json props = c.has("props") ? toOccaJson(c["props"]) : occa::json();
  std::unique_ptr<emu::Module> mod;
  if (emulated) mod.reset(new emu::Module(c["module"].str(), dev));
  std::string out = "\"res\":[";
  const mj::Value &ks = c["kernels"];
  for (size_t ki = 0; ki < ks.size(); ++ki) {
    const std::string name = ks[ki]["name"].str();
    const mj::Value &runs = ks[ki]["runs"];
    if (ki) out += ",";
    out += "[";
    occa::kernel kern;
    std::string buildErr;
    if (!emulated) {
      try { kern = dev.buildKernel(c["okl"].str(), name, props); }
      catch (std::exception &e) { buildErr = e.what(); }
    }
    for (size_t ri = 0; ri < runs.size(); ++ri) {
      rc::step((long) (ki * 100000 + ri));
      const mj::Value &args = runs[ri];
      if (ri) out += ",";
      std::vector<ArgBuf> bufs(args.size());
      std::vector<occa::kernelArg> kargs;
      std::string err = buildErr, launches = "[]";
      try {
        for (size_t a = 0; a < args.size(); ++a) {
          ArgBuf &b = bufs[a];
          b.t = args[a]["t"].str();
          if (b.t == "int*" || b.t == "long*") {
            b.n = (size_t) args[a]["n"].i();
            const size_t es = (b.t == "int*") ? sizeof(int) : sizeof(long);
            std::vector<char> zero(b.n * es, 0);
            b.ret = !(args[a].has("ret") && !args[a]["ret"].b);
            if (args[a].has("fill") && args[a]["fill"].str() == "iota") {   // cell i holds i + 1
              for (size_t i = 0; i < b.n; ++i) {
                if (es == sizeof(int)) ((int *) zero.data())[i] = (int) (i + 1);
                else ((long *) zero.data())[i] = (long) (i + 1);
              }
            }
            b.mem = dev.malloc(b.n * es, zero.data());
            b.mem.setDtype(b.t == "int*" ? occa::dtype::int_ : occa::dtype::long_);
            kargs.push_back(occa::kernelArg(b.mem));
          } else if (b.t == "int") {
            kargs.push_back(occa::kernelArg((int) args[a]["v"].i()));
          } else if (b.t == "long") {
            kargs.push_back(occa::kernelArg((long) args[a]["v"].i()));
          } else throw std::runtime_error("unknown arg type " + b.t);
        }
        if (err.empty()) {
          if (emulated) {
            emu::RunResult r = mod->run(name, kargs);
            launches = launchesJson(r);
          } else {
            kern.clearArgs();
            for (auto &ka : kargs) kern.pushArg(ka);
            kern.run();
          }
        }
      } catch (std::exception &e) { err = e.what(); }
      out += "{\"out\":[";
      bool firstBuf = true;
      for (auto &b : bufs) {
        if ((b.t != "int*" && b.t != "long*") || !b.ret) continue;
        if (!firstBuf) out += ",";
        firstBuf = false;
        out += (b.t == "int*") ? sparse<int>(b.mem, b.n) : sparse<long>(b.mem, b.n);
      }
      out += "],\"launches\":" + launches + ",\"err\":" + (err.empty() ? "null" : mj::quote(err.substr(0, 300))) + "}";
      for (auto &b : bufs) if (b.mem.isInitialized()) b.mem.free();
    }
    out += "]";
    if (kern.isInitialized()) kern.free();
  }
  return out + "]";
}

int main(int argc, char **argv) {
  rc::init(argc, argv);
  std::string line;
  while (rc::next(line)) {
    mj::Value c = mj::parse(line);
    const std::string op = c["op"].str();
    std::string body;
    try {
      if (op == "translate") body = doTranslate(c);
      else if (op == "run") body = doRun(c);
      else { fprintf(stderr, "unknown op %s\n", op.c_str()); return 2; }
    } catch (std::exception &e) {
      body = std::string("\"fatal\":") + mj::quote(std::string(e.what()).substr(0, 600));
    }
    rc::emit("{\"beh\":" + std::to_string(rc::cur_beh) + "," + body + "}");
  }
  return 0;
}
