// C05 replayer: executes Accounting.tla behaviours on one fresh device per behaviour and reports
// (memoryAllocated, maxMemoryAllocated) after every step.
//   case   : {"steps":[{"a":..,"x":..,"n":..,"use":b,"own":b,"src":b},...]}   (sizes, alignments in bytes)
//   output : {"beh":i,"obs":[{"err":0|1,"mem":..,"max":..,"psz":[pool sizes]},...],"end":{"mem":..}}
// Buffers are identified by the spec's buffer number; a buffer is held through the memory handles of
// its views.  No model here: action names are mapped to API calls.
// With HR_LEAKCHECK=k LeakSanitizer looks for unreachable heap blocks after every k-th behaviour (everything
// released at that point); a line {"leak":1,"upto":i} is written when it finds any.
#include "replay_core.hpp"
#include <occa.hpp>
#include <map>

extern "C" int __lsan_do_recoverable_leak_check(void) __attribute__((weak));

static std::string modeProps = "{mode: 'Serial'}";
static char wrapArea[4096];

struct State {
  occa::device dev;
  std::map<long, std::vector<occa::memory> > views;   // buffer number -> live views
  std::map<long, occa::memoryPool> pools;
  std::map<long, std::map<long, occa::memory> > res;  // pool -> reservation id -> handle
  std::map<long, long> nres;                           // pool -> reservations handed out so far
  std::vector<void*> userOwned;                        // host memory the library must not free
};

static std::string observe(State &S, bool err) {
  std::string psz = "[";
  bool first = true;
  for (auto &p : S.pools) {
    if (!first) psz += ",";
    first = false;
    psz += std::to_string((long) p.second.size());
  }
  return std::string("{\"err\":") + (err ? "1" : "0") + ",\"mem\":" + std::to_string((long) S.dev.memoryAllocated()) +
         ",\"max\":" + std::to_string((long) S.dev.maxMemoryAllocated()) + ",\"psz\":" + psz + "]}";
}

static void doStep(State &S, const mj::Value &st) {
  const std::string &a = st["a"].str();
  long x = st["x"].i(), n = st["n"].i();
  if (a == "malloc") {
    bool use = st["use"].b, own = st["own"].b, src = st["src"].b;
    occa::json props;
    props["use_host_pointer"] = use;
    props["own_host_pointer"] = own;
    void *host = 0;
    if (src) {
      host = ::malloc(n);
      memset(host, 7, n);
    }
    occa::memory m = S.dev.malloc<char>(n, host, props);
    if (src) {
      if (use && own) {
        // ownership passed to the library
      } else if (use) {
        S.userOwned.push_back(host);   // must outlive the allocation
      } else {
        ::free(host);                  // contents were copied
      }
    }
    S.views[x].push_back(m);
  } else if (a == "malloc0") {
    occa::memory m = S.dev.malloc<char>(0);
    if (m.isInitialized()) throw std::runtime_error("malloc(0) returned an initialized handle");
  } else if (a == "wrap") {
    S.views[x].push_back(S.dev.wrapMemory<char>(wrapArea, n));
  } else if (a == "clone") {
    S.views[n].push_back(S.views[x].front().clone());   // n = number of the new buffer
  } else if (a == "slice") {
    S.views[x].push_back(S.views[x].front().slice(0));
  } else if (a == "free") {
    S.views[x].back().free();
    S.views[x].pop_back();
  } else if (a == "newPool") {
    S.pools[x] = S.dev.createMemoryPool();
  } else if (a == "reserve") {
    // n bytes; the reservation gets the next number of its pool (the spec numbers them the same way)
    occa::memory r = S.pools[x].reserve<char>(n);
    S.res[x][++S.nres[x]] = r;
  } else if (a == "release") {
    S.res[x][n].free();
    S.res[x].erase(n);
  } else if (a == "resize") {
    S.pools[x].resize((occa::udim_t) n);
  } else if (a == "shrink") {
    S.pools[x].shrinkToFit();
  } else if (a == "align") {
    S.pools[x].setAlignment((occa::udim_t) n);
  } else if (a == "freePool") {
    S.pools[x].free();
    S.pools.erase(x);
    S.res.erase(x);
  } else {
    fprintf(stderr, "unknown action %s\n", a.c_str());
    exit(2);
  }
}

int main(int argc, char **argv) {
  rc::init(argc, argv);
  if (getenv("HR_MODE")) modeProps = std::string("{mode: '") + getenv("HR_MODE") + "'}";
  std::string line;
  long leakEvery = getenv("HR_LEAKCHECK") ? atol(getenv("HR_LEAKCHECK")) : 0, sinceCheck = 0;
  while (rc::next(line)) {
    rc::watchdog(300);
    mj::Value b = mj::parse(line);
    const mj::Value &steps = b["steps"];
    std::string out = "{\"beh\":" + std::to_string(rc::cur_beh) + ",\"obs\":[";
    {
      State S;
      S.dev = occa::device(modeProps);
      for (size_t j = 0; j < steps.size(); ++j) {
        rc::step(j);
        bool err = false;
        try {
          doStep(S, steps[j]);
        } catch (occa::exception &e) {
          err = true;
        }
        if (j) out += ",";
        out += observe(S, err);
      }
      // release everything that is still alive; the counter must be back at 0
      rc::step(steps.size());
      S.res.clear();
      S.pools.clear();
      S.views.clear();
      out += "],\"end\":" + observe(S, false) + "}";
      for (void *p : S.userOwned) ::free(p);
    }
    rc::emit(out);
    if (leakEvery > 0 && ++sinceCheck >= leakEvery && &__lsan_do_recoverable_leak_check) {
      sinceCheck = 0;
      if (__lsan_do_recoverable_leak_check())
        rc::emit("{\"leak\":1,\"upto\":" + std::to_string(rc::cur_beh) + "}");
    }
  }
  return 0;
}
