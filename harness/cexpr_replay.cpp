// C14 replayer: every input line {"e": "<expression text>"} is tokenized, parsed with
// expressionParser::parse and folded with exprNode::evaluate(); the primitive's type tag and
// value bits are printed.  No model of C++ in here: the comparison is done in python against
// the prediction of spec/lang/CExpr.tla.
//   out: {"beh":i,"st":"ok","ty":<primitiveType bit index>,"bits":"<hex, zero-extended>","f":"<hex of (double) value>"}
//        {"beh":i,"st":"error","msg":"..."}      occa::exception while parsing/evaluating
//        {"beh":i,"st":"noparse"} / {"st":"noeval"}
#include "replay_core.hpp"
#include <occa/internal/lang/expr.hpp>
#include <occa/internal/lang/tokenizer.hpp>
#include <occa/utils/exception.hpp>
#include <cinttypes>

using namespace occa;
using namespace occa::lang;

static std::string jesc(const std::string &s) {
  std::string o;
  for (char c : s) {
    if (c == '"' || c == '\\') { o += '\\'; o += c; }
    else if ((unsigned char)c < 0x20) o += ' ';
    else o += c;
  }
  return o;
}

static int typeIndex(int t) {
  for (int i = 0; i < 16; ++i) if (t == (1 << i)) return i;
  return -1;
}

int main(int argc, char **argv) {
  rc::init(argc, argv);
  std::string line;
  while (rc::next(line)) {
    mj::Value c = mj::parse(line);
    const std::string text = c["e"].str();
    rc::step(0);
    std::string out = "{\"beh\":" + std::to_string(rc::cur_beh);
    exprNode *expr = NULL;
    try {
      tokenVector tokens = tokenizer_t::tokenize(text);
      expr = expressionParser::parse(tokens);
      if (!expr) {
        out += ",\"st\":\"noparse\"}";
      } else if (!expr->canEvaluate()) {
        out += ",\"st\":\"noeval\"}";
      } else {
        rc::step(1);
        primitive p = expr->evaluate();
        uint64_t bits = 0;
        double d = 0;
        switch (p.type) {
          case primitiveType::bool_:   bits = p.value.bool_ ? 1 : 0; break;
          case primitiveType::int8_:   bits = (uint8_t) p.value.int8_; break;
          case primitiveType::uint8_:  bits = p.value.uint8_; break;
          case primitiveType::int16_:  bits = (uint16_t) p.value.int16_; break;
          case primitiveType::uint16_: bits = p.value.uint16_; break;
          case primitiveType::int32_:  bits = (uint32_t) p.value.int32_; break;
          case primitiveType::uint32_: bits = p.value.uint32_; break;
          case primitiveType::int64_:  bits = (uint64_t) p.value.int64_; break;
          case primitiveType::uint64_: bits = p.value.uint64_; break;
          case primitiveType::float_:  d = (double) p.value.float_; break;
          case primitiveType::double_: d = p.value.double_; break;
          default: break;
        }
        uint64_t dbits; memcpy(&dbits, &d, 8);
        char buf[160];
        snprintf(buf, sizeof buf, ",\"st\":\"ok\",\"ty\":%d,\"bits\":\"%016" PRIx64 "\",\"f\":\"%016" PRIx64 "\"}",
                 typeIndex(p.type), bits, dbits);
        out += buf;
      }
    } catch (occa::exception &e) {
      out += ",\"st\":\"error\",\"msg\":\"" + jesc(e.message) + "\"}";
    } catch (std::exception &e) {
      out += ",\"st\":\"error\",\"msg\":\"std:" + jesc(e.what()) + "\"}";
    }
    delete expr;
    rc::emit(out);
  }
  return 0;
}
