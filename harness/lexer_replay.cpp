// C12 replayer: feeds texts generated from spec/lang/Lexer.tla to the real occa::lang::tokenizer_t.
//   input  line: {"text": "<bytes, non-ASCII as \u00XX>", "rt": 0|1}
//   output line: {"beh":i,"k0":[tok..],"e0":errors,"p":"printed","k1":[tok..],"e1":errors}
// The text is copied into a heap buffer of exactly size+1 bytes, so that a read past the
// terminating NUL is an ASan heap-buffer-overflow (std::string's small-string buffer would hide it).
// k0 = tokens of the text; when rt=1 each token is printed with token_t::print, the spellings are
// joined with one blank and tokenized again (k1).  No model of the lexer lives here.
// Crash containment: the cases are executed in a forked child; when the child dies (sanitizer
// report, signal, watchdog) the parent records  {"beh":i,"crash":what,"step":j,"kind":..,"pcs":[..]}
// (taken from the child's unsymbolized sanitizer report) and forks a new child for case i+1, so a
// tree in which thousands of inputs crash is still explored completely and quickly.
#include "replay_core.hpp"
#include <sys/mman.h>
#include <sys/wait.h>
#include <vector>
#include <occa/internal/io/output.hpp>
#include <occa/internal/lang/token.hpp>
#include <occa/internal/lang/tokenizer.hpp>

using namespace occa::lang;

static void swallow(const char *) {}
extern "C" void __sanitizer_print_stack_trace() __attribute__((weak));

static std::string primJson(const occa::primitive &p) {
  char buf[96];
  const char *tn = "none";
  std::string bits = "0";
  switch (p.type) {
    case occa::primitiveType::bool_:   tn = "bool";   bits = std::to_string((long long) p.value.bool_); break;
    case occa::primitiveType::int8_:   tn = "int8";   bits = std::to_string((long long) p.value.int8_); break;
    case occa::primitiveType::uint8_:  tn = "uint8";  bits = std::to_string((unsigned long long) p.value.uint8_); break;
    case occa::primitiveType::int16_:  tn = "int16";  bits = std::to_string((long long) p.value.int16_); break;
    case occa::primitiveType::uint16_: tn = "uint16"; bits = std::to_string((unsigned long long) p.value.uint16_); break;
    case occa::primitiveType::int32_:  tn = "int32";  bits = std::to_string((long long) p.value.int32_); break;
    case occa::primitiveType::uint32_: tn = "uint32"; bits = std::to_string((unsigned long long) p.value.uint32_); break;
    case occa::primitiveType::int64_:  tn = "int64";  bits = std::to_string((long long) p.value.int64_); break;
    case occa::primitiveType::uint64_: tn = "uint64"; bits = std::to_string((unsigned long long) p.value.uint64_); break;
    case occa::primitiveType::float_:  tn = "float";  snprintf(buf, sizeof buf, "%a", (double) p.value.float_); bits = buf; break;
    case occa::primitiveType::double_: tn = "double"; snprintf(buf, sizeof buf, "%a", p.value.double_); bits = buf; break;
    default: break;
  }
  return std::string("\"pt\":\"") + tn + "\",\"pb\":\"" + bits + "\"";
}

static std::string tokJson(token_t *t) {
  const int ty = t->type();
  if (ty & tokenType::identifier) return "{\"t\":\"id\",\"v\":" + mj::quote(t->to<identifierToken>().value) + "}";
  if (ty & tokenType::primitive) {
    primitiveToken &p = t->to<primitiveToken>();
    return "{\"t\":\"prim\",\"v\":" + mj::quote(p.strValue) + "," + primJson(p.value) + "}";
  }
  if (ty & tokenType::op) return "{\"t\":\"op\",\"v\":" + mj::quote(t->to<operatorToken>().op->str) + "}";
  if (ty & tokenType::newline) return "{\"t\":\"nl\"}";
  if (ty & tokenType::char_) {
    charToken &c = t->to<charToken>();
    return "{\"t\":\"char\",\"v\":" + mj::quote(c.value) + ",\"enc\":" + std::to_string(c.encoding) + ",\"udf\":" + mj::quote(c.udf) + "}";
  }
  if (ty & tokenType::string) {
    stringToken &s = t->to<stringToken>();
    return "{\"t\":\"str\",\"v\":" + mj::quote(s.value) + ",\"enc\":" + std::to_string(s.encoding) + ",\"udf\":" + mj::quote(s.udf) + "}";
  }
  if (ty & tokenType::comment) return "{\"t\":\"cmt\",\"v\":" + mj::quote(t->to<commentToken>().value) + "}";
  if (ty & tokenType::unknown) return "{\"t\":\"unk\",\"v\":" + mj::quote(std::string(1, t->origin.position.start[0])) + "}";
  return "{\"t\":\"other\",\"v\":" + std::to_string(ty) + "}";
}

// tokenize an exact-size heap copy of `text`; returns the tokens (caller frees) and the error count
static int lex(tokenizer_t &tk, const std::string &text, tokenVector &out, char *&buf) {
  buf = (char *) malloc(text.size() + 1);
  memcpy(buf, text.data(), text.size());
  buf[text.size()] = '\0';
  tk.set(buf);
  token_t *t = NULL;
  long guard = 0;
  while (!tk.isEmpty()) {
    tk.setNext(t);
    if (t) out.push_back(t);
    if (++guard > 100000) { rc::crash_line("RUNAWAY"); _exit(70); }
  }
  return tk.errors;
}

// --optable <file>: dump the operator table of the library under test (one JSON row per operator)
static int dumpOperators(const char *path) {
  operatorTrie ops;
  getOperators(ops);
  ops.freeze();
  FILE *f = fopen(path, "w");
  if (!f) return 2;
  for (int i = 0; i < ops.size(); ++i) {
    const std::string &s = ops.values[i]->str;
    std::string row = "{\"s\":[";
    for (size_t j = 0; j < s.size(); ++j) row += (j ? "," : "") + mj::quote(std::string(1, s[j]));
    fprintf(f, "%s]}\n", row.c_str());
  }
  fclose(f);
  return 0;
}

static void runCase(tokenizer_t &tk, const std::string &line, unsigned wd, volatile long *shared) {
  mj::Value c = mj::parse(line);
  const std::string text = c["text"].str();
  const bool rt = c["rt"].i() != 0;
  rc::watchdog(wd);
  rc::step(0); shared[1] = 0;
  tokenVector k0, k1;
  char *b0 = NULL, *b1 = NULL;
  std::string out = "{\"beh\":" + std::to_string(rc::cur_beh);
  try {
    const int e0 = lex(tk, text, k0, b0);
    out += ",\"k0\":[";
    for (size_t i = 0; i < k0.size(); ++i) out += (i ? "," : "") + tokJson(k0[i]);
    out += "],\"e0\":" + std::to_string(e0);
    if (rt) {
      rc::step(1); shared[1] = 1;
      std::string printed;
      for (size_t i = 0; i < k0.size(); ++i) {
        // tokens are separated by one blank; a line comment is terminated by the newline token
        // that follows it, so nothing is inserted there (a blank would become part of the comment)
        const bool afterLineComment = i && (k0[i - 1]->type() & tokenType::comment) &&
                                      k0[i - 1]->to<commentToken>().value.compare(0, 2, "//") == 0;
        if (i && !afterLineComment) printed += ' ';
        printed += k0[i]->str();
      }
      rc::step(2); shared[1] = 2;
      const int e1 = lex(tk, printed, k1, b1);
      out += ",\"p\":" + mj::quote(printed) + ",\"k1\":[";
      for (size_t i = 0; i < k1.size(); ++i) out += (i ? "," : "") + tokJson(k1[i]);
      out += "],\"e1\":" + std::to_string(e1);
    }
  } catch (std::exception &e) {
    out += ",\"exc\":" + mj::quote(e.what());
  }
  rc::watchdog(0);
  tk.clear();
  freeTokenVector(k0);
  freeTokenVector(k1);
  free(b0);
  free(b1);
  rc::emit(out + "}");
}

// what the child's (unsymbolized) sanitizer report says: error kind and the first frames as module+offset
static std::string reportInfo(const std::string &path) {
  std::ifstream f(path.c_str());
  std::string ln, kind = "-", pcs;
  int n = 0;
  while (std::getline(f, ln)) {
    size_t p;
    if ((p = ln.find("ERROR: AddressSanitizer: ")) != std::string::npos) {
      kind = ln.substr(p + 25);
      kind = kind.substr(0, kind.find(' '));
    } else if (ln.find("runtime error:") != std::string::npos && kind == "-") {
      kind = "ubsan:" + ln.substr(ln.find("runtime error:") + 15, 60);
    } else if (n < 6 && ln.find("    #") != std::string::npos && (p = ln.find("+0x")) != std::string::npos) {
      const size_t l = ln.rfind('(', p), e = ln.find(')', p);     // "#1 0x7f.. (/path/libocca.so+0x1234)"
      if (l != std::string::npos && e != std::string::npos) { pcs += (n ? "," : "") + mj::quote(ln.substr(l + 1, e - l - 1)); ++n; }
    }
  }
  return "\"kind\":" + mj::quote(kind) + ",\"pcs\":[" + pcs + "]";
}

int main(int argc, char **argv) {
  if (argc == 3 && !strcmp(argv[1], "--optable")) return dumpOperators(argv[2]);
  rc::init(argc, argv);
  if (!getenv("LEXER_VERBOSE")) {
    occa::io::stderr.setOverride(swallow);
    occa::io::stdout.setOverride(swallow);
  }
  const unsigned wd = getenv("LEXER_WATCHDOG") ? atoi(getenv("LEXER_WATCHDOG")) : 10;
  std::vector<std::string> lines;
  { std::string line; std::ifstream f(argv[1]); while (std::getline(f, line)) lines.push_back(line); }
  volatile long *shared = (volatile long *) mmap(NULL, 4096, PROT_READ | PROT_WRITE, MAP_SHARED | MAP_ANONYMOUS, -1, 0);
  const std::string errPath = std::string(argv[2]) + ".stderr";
  tokenizer_t tk;
  if (&__sanitizer_print_stack_trace) {
    // warm the sanitizer's unwinder and module list once in the parent (the children inherit them):
    // otherwise every dying child spends ~0.3 s building them for its report
    const int keep = dup(2), nul = open("/dev/null", O_WRONLY);
    dup2(nul, 2);
    __sanitizer_print_stack_trace();
    dup2(keep, 2); close(keep); close(nul);
  }
  long i = rc::start_index, deaths = 0;
  const long maxDeaths = getenv("LEXER_MAX_DEATHS") ? atol(getenv("LEXER_MAX_DEATHS")) : 200;
  const long n = (long) lines.size();
  while (i < n) {
    fflush(NULL);
    const pid_t pid = fork();
    if (pid < 0) { perror("fork"); return 2; }
    if (pid == 0) {
      const int efd = open(errPath.c_str(), O_WRONLY | O_CREAT | O_TRUNC, 0644);
      if (efd >= 0 && !getenv("LEXER_VERBOSE")) { dup2(efd, 2); close(efd); }
      for (long j = i; j < n; ++j) {
        if (lines[j].empty()) continue;
        shared[0] = j; rc::cur_beh = j;
        runCase(tk, lines[j], wd, shared);
      }
      _exit(0);
    }
    int st = 0;
    waitpid(pid, &st, 0);
    if (WIFEXITED(st) && WEXITSTATUS(st) == 0) break;
    const long j = shared[0];
    std::string what = WIFSIGNALED(st) ? "SIGNAL-" + std::to_string(WTERMSIG(st))
                     : WEXITSTATUS(st) == 70 ? "HANDLED" : WEXITSTATUS(st) == 86 ? "SANITIZER"
                     : WEXITSTATUS(st) == 87 ? "SANITIZER" : "EXIT-" + std::to_string(WEXITSTATUS(st));
    rc::emit("{\"beh\":" + std::to_string(j) + ",\"died\":" + mj::quote(what) + ",\"step\":" + std::to_string(shared[1]) +
             "," + reportInfo(errPath) + "}");
    i = j + 1;
    // a tree in which very many inputs crash: stop after maxDeaths (each death costs a fork and a report)
    if (++deaths >= maxDeaths && i < n) {
      rc::emit("{\"stopped\":" + std::to_string(i) + ",\"deaths\":" + std::to_string(deaths) + "}");
      break;
    }
  }
  unlink(errPath.c_str());
  return 0;
}
