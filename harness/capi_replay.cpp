// C29 replayer: executes CApi.tla behaviours through the C API only (<occa.h>); prints, after every
// call, what the C API reports about every handle the behaviour asks to read.  No model in here.
//   step {"a":"create"|"oset"|"oget"|"ohas"|"apush"|"aget"|"apop"|"aclear"|"ainsert"|"free"|"construct"|"echo",
//         "h":handle, "k":key/token, "x":{t,v}, "src":handle to copy from, "i":index,
//         "reads":[{"h":handle,"as":ctype-or-""}...]}
#include "replay_core.hpp"
#include <occa.h>
#include <cfloat>
#include <climits>
#include <cinttypes>
#include <exception>
#include <vector>

static const char *STR_EMPTY = "", *STR_S = "s", *STR_ESC = "q\"b\\s\nnl\t/";

static occaType make(const std::string &t, const std::string &v) {
  const bool MIN = v == "MIN", M1 = v == "M1", ONE = v == "ONE", MAX = v == "MAX", HALF = v == "HALF";
  // HALF (unsigned types only) = 2^(w-1) = hi/2 + 1
#define INT(T, lo, hi) (T)(MIN ? (lo) : M1 ? -1 : ONE ? 1 : MAX ? (hi) : HALF ? ((hi) / 2 + 1) : 0)
  if (t == "i8") return occaInt8(INT(int8_t, INT8_MIN, INT8_MAX));
  if (t == "u8") return occaUInt8(INT(uint8_t, 0, UINT8_MAX));
  if (t == "i16") return occaInt16(INT(int16_t, INT16_MIN, INT16_MAX));
  if (t == "u16") return occaUInt16(INT(uint16_t, 0, UINT16_MAX));
  if (t == "i32") return occaInt32(INT(int32_t, INT32_MIN, INT32_MAX));
  if (t == "u32") return occaUInt32(INT(uint32_t, 0, UINT32_MAX));
  if (t == "i64") return occaInt64(INT(int64_t, INT64_MIN, INT64_MAX));
  if (t == "u64") return occaUInt64(INT(uint64_t, 0, UINT64_MAX));
#undef INT
  if (t == "f32") return occaFloat(MIN ? -FLT_MAX : M1 ? -1.0f : ONE ? 1.0f : MAX ? FLT_MAX : v == "TINY" ? FLT_MIN : v == "FRAC" ? 0.1f : 0.0f);
  if (t == "f64") return occaDouble(MIN ? -DBL_MAX : M1 ? -1.0 : ONE ? 1.0 : MAX ? DBL_MAX : v == "TINY" ? DBL_MIN : v == "FRAC" ? 0.1 : 0.0);
  if (t == "bool") return occaBool(ONE);
  if (t == "string") return occaString(v == "EMPTY" ? STR_EMPTY : v == "S" ? STR_S : STR_ESC);
  if (t == "null") return occaNull;
  fprintf(stderr, "unknown scalar type %s\n", t.c_str());
  exit(2);
}

static std::string tagName(int type) {
  if (type == OCCA_UNDEFINED) return "undefined";
  if (type == OCCA_DEFAULT) return "default";
  if (type == OCCA_NULL) return "null";
  if (type == OCCA_PTR) return "ptr";
  if (type == OCCA_BOOL) return "bool";
  if (type == OCCA_INT8) return "i8";
  if (type == OCCA_UINT8) return "u8";
  if (type == OCCA_INT16) return "i16";
  if (type == OCCA_UINT16) return "u16";
  if (type == OCCA_INT32) return "i32";
  if (type == OCCA_UINT32) return "u32";
  if (type == OCCA_INT64) return "i64";
  if (type == OCCA_UINT64) return "u64";
  if (type == OCCA_FLOAT) return "f32";
  if (type == OCCA_DOUBLE) return "f64";
  if (type == OCCA_STRING) return "string";
  if (type == OCCA_JSON) return "json";
  return "other" + std::to_string(type);
}
static int tagOf(const std::string &t) {
  return t == "i8" ? OCCA_INT8 : t == "u8" ? OCCA_UINT8 : t == "i16" ? OCCA_INT16 : t == "u16" ? OCCA_UINT16 :
         t == "i32" ? OCCA_INT32 : t == "u32" ? OCCA_UINT32 : t == "i64" ? OCCA_INT64 : t == "u64" ? OCCA_UINT64 :
         t == "f32" ? OCCA_FLOAT : t == "f64" ? OCCA_DOUBLE : -1;
}

// value of a scalar occaType as text (integers decimal, floating point as %a)
static std::string valueText(occaType x) {
  char b[64];
  const int t = x.type;
  if (t == OCCA_BOOL) snprintf(b, sizeof b, "%d", (int) x.value.int8_);
  else if (t == OCCA_INT8) snprintf(b, sizeof b, "%d", (int) x.value.int8_);
  else if (t == OCCA_UINT8) snprintf(b, sizeof b, "%u", (unsigned) x.value.uint8_);
  else if (t == OCCA_INT16) snprintf(b, sizeof b, "%d", (int) x.value.int16_);
  else if (t == OCCA_UINT16) snprintf(b, sizeof b, "%u", (unsigned) x.value.uint16_);
  else if (t == OCCA_INT32) snprintf(b, sizeof b, "%" PRId32, x.value.int32_);
  else if (t == OCCA_UINT32) snprintf(b, sizeof b, "%" PRIu32, x.value.uint32_);
  else if (t == OCCA_INT64) snprintf(b, sizeof b, "%" PRId64, x.value.int64_);
  else if (t == OCCA_UINT64) snprintf(b, sizeof b, "%" PRIu64, x.value.uint64_);
  else if (t == OCCA_FLOAT) snprintf(b, sizeof b, "%a", (double) x.value.float_);
  else if (t == OCCA_DOUBLE) snprintf(b, sizeof b, "%a", x.value.double_);
  else if (t == OCCA_STRING) return std::string(x.value.ptr, x.bytes);
  else b[0] = 0;
  return b;
}

// what the C API reports about handle x, read as C type `as` when it is a json number
static std::string observe(int h, occaType x, const std::string &as) {
  std::string s = "{\"h\":" + std::to_string(h);
  if (occaIsUndefined(x)) return s + ",\"tag\":\"undefined\"}";
  s += ",\"tag\":" + mj::quote(tagName(x.type)) + ",\"bytes\":" + std::to_string((unsigned long long) x.bytes);
  if (x.type != OCCA_JSON) return s + ",\"v\":" + mj::quote(valueText(x)) + "}";
  const bool B = occaJsonIsBoolean(x), N = occaJsonIsNumber(x), S = occaJsonIsString(x), A = occaJsonIsArray(x), O = occaJsonIsObject(x);
  s += std::string(",\"is\":\"") + (B ? "B" : "") + (N ? "N" : "") + (S ? "S" : "") + (A ? "A" : "") + (O ? "O" : "") + "\"";
  if (B) s += std::string(",\"v\":\"") + (occaJsonGetBoolean(x) ? "1" : "0") + "\"";
  if (N) {
    const int T = tagOf(as);
    if (T >= 0) {
      occaType n = occaJsonGetNumber(x, T);
      s += ",\"ntag\":" + mj::quote(tagName(n.type)) + ",\"v\":" + mj::quote(valueText(n));
    }
    // the same number read as the widest types (independent of the type it was stored with)
    s += ",\"i64\":" + mj::quote(valueText(occaJsonGetNumber(x, OCCA_INT64))) +
         ",\"u64\":" + mj::quote(valueText(occaJsonGetNumber(x, OCCA_UINT64))) +
         ",\"f64\":" + mj::quote(valueText(occaJsonGetNumber(x, OCCA_DOUBLE)));
  }
  if (B || N || S || A || O) {
    // the text form of the value at this handle (for an owner handle: the whole document)
    const char *text = occaJsonDump(x, 0);
    s += ",\"dump\":" + mj::quote(text);
    ::free((void*) text);
  }
  if (S) s += ",\"v\":" + mj::quote(occaJsonGetString(x));
  if (A) s += ",\"n\":" + std::to_string(occaJsonArraySize(x));
  if (O) s += ",\"n\":" + std::to_string((int) occaJsonObjectHas(x, "a") + (int) occaJsonObjectHas(x, "b") + (int) occaJsonObjectHas(x, "c"));
  return s + "}";
}

// ---- kernel echo -------------------------------------------------------------------------------
static occaDevice device;
static occaKernel echoKernel, boolKernel;
static occaMemory outI, outF;
static bool echoReady = false;
static const char *echoSource =
  "@kernel void echo(const char a, const unsigned char b, const short c, const unsigned short d,\n"
  "                  const int e, const unsigned int f, const long g, const unsigned long h,\n"
  "                  const float x, const double y, long *oi, double *of) {\n"
  "  for (int o = 0; o < 1; ++o; @outer) { for (int i = 0; i < 1; ++i; @inner) {\n"
  "    oi[0] = a; oi[1] = b; oi[2] = c; oi[3] = d; oi[4] = e; oi[5] = f; oi[6] = g; oi[7] = (long) h;\n"
  "    of[0] = x; of[1] = y;\n"
  "  } }\n"
  "}\n"
  "@kernel void echoBool(const bool q, long *oi) {\n"
  "  for (int o = 0; o < 1; ++o; @outer) { for (int i = 0; i < 1; ++i; @inner) { oi[8] = q ? 1 : 0; } }\n"
  "}\n";
static void setupEcho() {
  if (echoReady) return;
  device = occaCreateDeviceFromString("{mode: 'Serial'}");
  echoKernel = occaDeviceBuildKernelFromString(device, echoSource, "echo", occaDefault);
  boolKernel = occaDeviceBuildKernelFromString(device, echoSource, "echoBool", occaDefault);
  // untyped memory: for typed memory the "bytes" of occaCopyPtrToMem/occaCopyMemToPtr count entries
  outI = occaDeviceMalloc(device, 9 * sizeof(long), NULL, occaDefault);
  outF = occaDeviceMalloc(device, 2 * sizeof(double), NULL, occaDefault);
  echoReady = true;
}
static std::string echo(const std::string &tok) {
  setupEcho();
  long oi[9] = {7, 7, 7, 7, 7, 7, 7, 7, 7};
  double of[2] = {7, 7};
  occaCopyPtrToMem(outI, oi, sizeof oi, 0, occaDefault);
  occaCopyPtrToMem(outF, of, sizeof of, 0, occaDefault);
  occaKernelRunN(echoKernel, 12, make("i8", tok), make("u8", tok), make("i16", tok), make("u16", tok), make("i32", tok),
                 make("u32", tok), make("i64", tok), make("u64", tok), make("f32", tok), make("f64", tok), outI, outF);
  std::string boolErr;
  try {
    occaKernelRunN(boolKernel, 2, make("bool", tok == "ZERO" ? "ZERO" : "ONE"), outI);
  } catch (std::exception &e) { boolErr = e.what(); }
  occaCopyMemToPtr(oi, outI, sizeof oi, 0, occaDefault);
  occaCopyMemToPtr(of, outF, sizeof of, 0, occaDefault);
  // the hash strings are C strings handed out by the API for this handle
  const char *hs = occaKernelHash(echoKernel);
  const size_t hl = hs ? strlen(hs) : 0;
  std::string s = "{\"oi\":[";
  char b[64];
  for (int i = 0; i < 9; ++i) { snprintf(b, sizeof b, "%s\"%ld\"", i ? "," : "", oi[i]); s += b; }
  snprintf(b, sizeof b, "],\"of\":[\"%a\",\"%a\"]", of[0], of[1]);
  s += b;
  s += ",\"hashlen\":" + std::to_string(hl) + ",\"boolerr\":" + mj::quote(boolErr.substr(0, 200)) + "}";
  ::free((void*) hs);
  return s;
}

// the "ambiguous" constructors must produce the same occaType as the sized one of the same width/sign
static bool same(occaType a, occaType b) { return a.type == b.type && a.bytes == b.bytes && valueText(a) == valueText(b); }
static std::string ambiguous(const std::string &t, occaType x) {
  if (t == "i8") return same(x, occaChar((char) x.value.int8_)) ? "ok" : "char";
  if (t == "u8") return same(x, occaUChar(x.value.uint8_)) ? "ok" : "uchar";
  if (t == "i16") return same(x, occaShort(x.value.int16_)) ? "ok" : "short";
  if (t == "u16") return same(x, occaUShort(x.value.uint16_)) ? "ok" : "ushort";
  if (t == "i32") return same(x, occaInt(x.value.int32_)) ? "ok" : "int";
  if (t == "u32") return same(x, occaUInt(x.value.uint32_)) ? "ok" : "uint";
  if (t == "i64") return same(x, occaLong((long) x.value.int64_)) ? "ok" : "long";
  if (t == "u64") return same(x, occaULong((unsigned long) x.value.uint64_)) ? "ok" : "ulong";
  return "ok";
}

int main(int argc, char **argv) {
  rc::init(argc, argv);
  std::string line;
  while (rc::next(line)) {
    mj::Value b = mj::parse(line);
    const mj::Value &steps = b["steps"];
    std::vector<occaType> H(1, occaUndefined);   // 1-based
    std::string out = "{\"beh\":" + std::to_string(rc::cur_beh) + ",\"obs\":[";
    for (size_t j = 0; j < steps.size(); ++j) {
      rc::step(j);
      const mj::Value &s = steps[j];
      const std::string &a = s["a"].str();
      const int h = (int) s["h"].i(), src = (int) s["src"].i(), idx = (int) s["i"].i();
      const std::string &k = s["k"].str();
      std::string res = "{", extra;
      try {
        occaType x = occaUndefined;
        if (a == "oset" || a == "apush" || a == "ainsert" || a == "construct" || a == "oget")
          x = src > 0 ? H[src] : (s["x"]["t"].str() == "none" ? occaUndefined : make(s["x"]["t"].str(), s["x"]["v"].str()));
        if (a == "create") H.push_back(occaCreateJson());
        else if (a == "oset") occaJsonObjectSet(H[h], k.c_str(), x);
        else if (a == "oget") H.push_back(occaJsonObjectGet(H[h], k.c_str(), x));
        else if (a == "ohas") extra = std::string(",\"has\":") + (occaJsonObjectHas(H[h], k.c_str()) ? "true" : "false");
        else if (a == "apush") occaJsonArrayPush(H[h], x);
        else if (a == "aget") H.push_back(occaJsonArrayGet(H[h], idx));
        else if (a == "apop") occaJsonArrayPop(H[h]);
        else if (a == "aclear") occaJsonArrayClear(H[h]);
        else if (a == "ainsert") occaJsonArrayInsert(H[h], idx, x);
        else if (a == "free") occaFree(&H[h]);
        else if (a == "construct") { H.push_back(x); extra = ",\"amb\":" + mj::quote(ambiguous(s["x"]["t"].str(), x)); }
        else if (a == "echo") extra = ",\"echo\":" + echo(k);
        else { fprintf(stderr, "unknown action %s\n", a.c_str()); return 2; }
        std::string rd = "\"reads\":[";
        const mj::Value &reads = s["reads"];
        for (size_t r = 0; r < reads.size(); ++r)
          rd += (r ? "," : "") + observe((int) reads[r]["h"].i(), H[reads[r]["h"].i()], reads[r]["as"].str());
        res += rd + "]" + extra;
      } catch (std::exception &e) {
        res = "{\"err\":" + mj::quote(std::string(e.what()).substr(0, 300));
      }
      out += (j ? "," : "") + res + "}";
    }
    // quiescence: free every owner document that is still alive (leak / double free monitors)
    for (size_t i = 1; i < H.size(); ++i)
      if (!occaIsUndefined(H[i]) && H[i].type == OCCA_JSON && H[i].needsFree) occaFree(&H[i]);
    rc::emit(out + "]}");
  }
  return 0;
}
