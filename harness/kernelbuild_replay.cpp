// C06 replayer (build tier): executes KernelKey.tla build histories with real builds.
//   replayer role : <exe> in.ndjson out.ndjson [start]
//     one input line = {"mode":"Serial|OpenMP", "files": {"<relative path>": "<text>", ...},
//                       "steps": [{"src":"<relative kernel file>", "props":"<occa json text>"} ...]}
//     "@W@" inside file texts and props is replaced by the behaviour's work directory; files under
//     bin/ are made executable.  Every step starts a FRESH PROCESS (this executable, role --build)
//     that shares the behaviour's OCCA_CACHE_DIR, builds kernel "k" with the given properties,
//     runs it and reports the integers it wrote.
//     output: {"beh":i,"obs":[{"status":"ok","out":[..],"act":"compiled|loaded","dir":".."} ...]}
//   build role    : <exe> --build <mode> <kernel file> <props file>
// No model in here: files are written, builds spawned, their reports copied.
#include "replay_core.hpp"
#include <occa.hpp>
#include <occa/internal/io.hpp>
#include <sys/stat.h>
#include <sys/wait.h>

#define NOUT 10

static std::string replaceAll(std::string s, const std::string &a, const std::string &b) {
  size_t p = 0;
  while ((p = s.find(a, p)) != std::string::npos) { s.replace(p, a.size(), b); p += b.size(); }
  return s;
}

static void mkdirs(const std::string &path) {
  for (size_t i = 1; i < path.size(); ++i)
    if (path[i] == '/') mkdir(path.substr(0, i).c_str(), 0755);
}

static void writeFile(const std::string &path, const std::string &text, bool exec) {
  mkdirs(path);
  FILE *f = fopen(path.c_str(), "w");
  if (!f) { perror(path.c_str()); exit(2); }
  fwrite(text.data(), 1, text.size(), f);
  fclose(f);
  if (exec) chmod(path.c_str(), 0755);
}

static std::string readFile(const std::string &path) {
  std::ifstream f(path);
  std::stringstream ss;
  ss << f.rdbuf();
  return ss.str();
}

static int buildRole(int argc, char **argv) {
  if (argc < 5) return 2;
  const std::string mode = argv[2], kernelFile = argv[3], propsFile = argv[4];
  try {
    occa::device dev({{"mode", mode}});
    occa::json props = occa::json::parse(readFile(propsFile));
    props["verbose"] = true;
    occa::kernel k = dev.buildKernel(kernelFile, "k", props);
    int out[NOUT];
    for (int i = 0; i < NOUT; ++i) out[i] = -1;
    occa::memory o = dev.malloc<int>(NOUT);
    o.copyFrom(out);
    k(o);
    o.copyTo(out);
    std::string dir = occa::io::dirname(k.binaryFilename());
    const std::string cachePath = occa::io::cachePath();
    if (dir.compare(0, cachePath.size(), cachePath) == 0) dir = dir.substr(cachePath.size());
    std::string vals;
    for (int i = 0; i < NOUT; ++i) vals += (i ? "," : "") + std::to_string(out[i]);
    printf("\nRESULT {\"status\":\"ok\",\"devmode\":%s,\"out\":[%s],\"dir\":%s}\n", mj::quote(dev.mode()).c_str(), vals.c_str(),
           mj::quote(dir).c_str());
  } catch (std::exception &e) {
    std::string w = e.what();
    printf("\nRESULT {\"status\":\"exception\",\"what\":%s}\n", mj::quote(w.size() > 600 ? w.substr(w.size() - 600) : w).c_str());
  }
  fflush(stdout);
  return 0;
}

static std::string runBuild(const std::string &self, const std::string &mode, const std::string &kernelFile,
                            const std::string &propsFile, const std::string &cacheDir, const std::string &rawDir, int timeoutSec) {
  // CPLUS_INCLUDE_PATH: fixed for all builds of a history (where the raw helper header lives)
  std::string cmd = "OCCA_CACHE_DIR='" + cacheDir + "' CPLUS_INCLUDE_PATH='" + rawDir + "' timeout -s KILL " + std::to_string(timeoutSec) + " '" + self +
                    "' --build " + mode + " '" + kernelFile + "' '" + propsFile + "' 2>&1";
  FILE *p = popen(cmd.c_str(), "r");
  if (!p) return "{\"status\":\"spawn-failed\"}";
  std::string all;
  char buf[4096];
  size_t n;
  while ((n = fread(buf, 1, sizeof buf, p)) > 0) all.append(buf, n);
  int st = pclose(p);
  int code = WIFEXITED(st) ? WEXITSTATUS(st) : 128 + WTERMSIG(st);
  std::string act = all.find("Loading cached [k]") != std::string::npos ? "loaded"
                  : all.find("Compiling [k]") != std::string::npos ? "compiled" : "unknown";
  size_t r = all.rfind("\nRESULT ");
  if (code == 0 && r != std::string::npos) {
    std::string js = all.substr(r + 8);
    size_t e = js.find('\n');
    if (e != std::string::npos) js = js.substr(0, e);
    return js.substr(0, js.size() - 1) + ",\"act\":\"" + act + "\"}";
  }
  const char *what = code == 139 ? "SIGSEGV" : code == 137 ? "TIMEOUT" : code == 134 ? "SIGABRT" : "EXIT";
  std::string tail = all.size() > 400 ? all.substr(all.size() - 400) : all;
  return std::string("{\"status\":\"") + what + "\",\"code\":" + std::to_string(code) + ",\"act\":\"" + act +
         "\",\"tail\":" + mj::quote(tail) + "}";
}

int main(int argc, char **argv) {
  if (argc > 1 && std::string(argv[1]) == "--build") return buildRole(argc, argv);
  rc::init(argc, argv);
  const char *w = getenv("KBUILD_WORK");
  if (!w) { fprintf(stderr, "KBUILD_WORK not set\n"); return 2; }
  const std::string work = w;
  const int timeoutSec = getenv("KBUILD_TIMEOUT") ? atoi(getenv("KBUILD_TIMEOUT")) : 300;
  char selfBuf[4096];
  ssize_t sl = readlink("/proc/self/exe", selfBuf, sizeof selfBuf - 1);
  if (sl <= 0) return 2;
  selfBuf[sl] = 0;
  const std::string self = selfBuf;
  std::string line;
  while (rc::next(line)) {
    mj::Value b = mj::parse(line);
    const std::string dir = work + "/b" + std::to_string(rc::cur_beh);
    std::string rm = "rm -rf '" + dir + "'";
    if (system(rm.c_str())) return 2;
    mkdir(dir.c_str(), 0755);
    for (auto &kv : b["files"].o)
      writeFile(dir + "/" + kv.first, replaceAll(kv.second.str(), "@W@", dir), kv.first.compare(0, 4, "bin/") == 0);
    const std::string mode = b["mode"].str();
    const mj::Value &steps = b["steps"];
    std::string out = "{\"beh\":" + std::to_string(rc::cur_beh) + ",\"obs\":[";
    for (size_t j = 0; j < steps.size(); ++j) {
      rc::step(j);
      const std::string propsFile = dir + "/props-" + std::to_string(j) + ".json";
      writeFile(propsFile, replaceAll(steps[j]["props"].str(), "@W@", dir), false);
      if (j) out += ",";
      out += runBuild(self, mode, dir + "/" + steps[j]["src"].str(), propsFile, dir + "/cache", dir + "/raw", timeoutSec);
    }
    rc::emit(out + "]}");
    if (!getenv("KBUILD_KEEP") && system(rm.c_str())) return 2;
  }
  return 0;
}
