// C30 schedule replayer: imposes the schedules that TLC generates from SharedHandles.tla on REAL
// threads of a library built with ENABLE_SHARABLE_DEVICE, using the guarded yield points (H3) as
// the boundaries of the model's atomic actions, and reports what the implementation did:
// how often the shared object's destructor ran (H1 registry), whether a destructor ran on a dead
// address, what memoryAllocated() says at quiescence.  No oracle in here.
//
// Mapping of model actions to code (thread t executing its current operation):
//   drop h   : dropCS     = run from the start of `delete h` until ring_t::removeRef returned
//                           (blocked at yMemoryRemoveRefUnlinked)
//              dropCheck  = read needsFree(); blocked at yMemoryRemoveRefChecked if it was true,
//                           else the operation is finished
//              dropDelete = `delete modeMemory` and finish (no-op if already finished)
//   copy s h : copyCS     = the whole copy construction
//   malloc n : childCS    = run device::malloc (buffer linked into the device's ring) until just before
//                           `bytesAllocated += n`;  countRead = no-op (the += cannot be split by a yield
//                           point);  countWrite = the update and the rest
//   free n   : childCS, countRead = no-op ; countWrite = the whole release
#include "replay_core.hpp"
#include <occa.hpp>
#include <occa/internal/core/memory.hpp>
#include <occa/internal/core/device.hpp>
#include <occa/internal/utils/verif.hpp>
#include <semaphore.h>
#include <pthread.h>
#include <atomic>
#include <map>
#include <set>
#include <time.h>

namespace v = occa::verif;

struct Worker {
  std::string name;
  pthread_t th;
  sem_t go, arrived;
  std::atomic<int> atPoint{0};      // yield point the thread is blocked at (0: at an operation gate)
  std::atomic<int> opsDone{0};
  std::set<int> armed;
  std::vector<mj::Value> prog;
  bool finished = false;
};
static thread_local Worker *self = nullptr;
static occa::device *dev;
static std::map<std::string, occa::memory *> handles;
static pthread_mutex_t handlesMutex = PTHREAD_MUTEX_INITIALIZER;
static std::map<std::string, std::vector<occa::memory *> > blocks;  // per thread: accounted allocations

static void hook(int point) {
  Worker *w = self;
  if (!w || !w->armed.count(point)) return;
  w->atPoint = point;
  sem_post(&w->arrived);
  sem_wait(&w->go);
  w->atPoint = 0;
}

static occa::memory *getHandle(const std::string &h) {
  pthread_mutex_lock(&handlesMutex);
  occa::memory *m = handles[h];
  pthread_mutex_unlock(&handlesMutex);
  return m;
}
static void setHandle(const std::string &h, occa::memory *m) {
  pthread_mutex_lock(&handlesMutex);
  handles[h] = m;
  pthread_mutex_unlock(&handlesMutex);
}

static void *workerMain(void *arg) {
  Worker *w = (Worker *)arg;
  self = w;
  for (size_t i = 0; i < w->prog.size(); ++i) {
    sem_wait(&w->go);                       // operation gate
    const mj::Value &op = w->prog[i];
    const std::string &kind = op[0].str();
    if (kind == "drop") {
      w->armed = {v::yMemoryRemoveRefUnlinked, v::yMemoryRemoveRefChecked};
      occa::memory *m = getHandle(op[1].str());
      setHandle(op[1].str(), nullptr);
      delete m;
    } else if (kind == "copy") {
      w->armed = {};
      occa::memory *s = getHandle(op[1].str());
      setHandle(op[2].str(), new occa::memory(*s));
    } else if (kind == "malloc") {
      w->armed = {v::yDeviceMallocCount};
      blocks[w->name].push_back(new occa::memory(dev->malloc<char>(op[1].i())));
    } else if (kind == "free") {
      w->armed = {};
      // release the oldest block of that size this thread (or any thread before it) allocated
      occa::memory *m = nullptr;
      std::vector<occa::memory *> &bs = blocks[w->name];
      for (size_t k = 0; k < bs.size(); ++k)
        if (bs[k] && (long)bs[k]->byte_size() == op[1].i()) { m = bs[k]; bs[k] = nullptr; break; }
      if (m) delete m;
    }
    w->armed = {};
    w->opsDone++;
    sem_post(&w->arrived);
  }
  w->finished = true;
  return nullptr;
}

static bool waitArrived(Worker &w, int seconds) {
  struct timespec ts;
  clock_gettime(CLOCK_REALTIME, &ts);
  ts.tv_sec += seconds;
  while (sem_timedwait(&w.arrived, &ts) != 0) {
    if (errno == EINTR) continue;
    return false;
  }
  return true;
}

int main(int argc, char **argv) {
  rc::init(argc, argv);
  v::yieldHook() = hook;
  std::string line;
  while (rc::next(line)) {
    rc::watchdog(240);
    mj::Value c = mj::parse(line);
    occa::device device({{"mode", "Serial"}});
    dev = &device;
    v::reset();
    handles.clear();
    blocks.clear();
    // the shared object and its initial handles
    occa::memory *first = nullptr;
    const mj::Value &init = c["init"];
    for (size_t i = 0; i < init.size(); ++i) {
      occa::memory *m = first ? new occa::memory(*first) : new occa::memory(device.malloc<char>(16));
      if (!first) first = m;
      handles[init[i].str()] = m;
    }
    const long base = (long)device.memoryAllocated();
    const long baseChildren = (long)device.getModeDevice()->memoryRing.length();
    const long serial = v::serialOf(v::kMemory, first->getModeMemory());
    // threads
    std::map<std::string, Worker *> ws;
    const mj::Value &threads = c["threads"];
    for (size_t i = 0; i < threads.size(); ++i) {
      Worker *w = new Worker();
      w->name = threads[i].str();
      sem_init(&w->go, 0, 0);
      sem_init(&w->arrived, 0, 0);
      const mj::Value &p = c["prog"][w->name];
      for (size_t k = 0; k < p.size(); ++k) w->prog.push_back(p[k]);
      ws[w->name] = w;
      blocks[w->name];
      pthread_create(&w->th, nullptr, workerMain, w);
    }
    // impose the schedule
    const mj::Value &sched = c["sched"];
    std::string note;
    bool stuck = false;
    std::map<std::string, int> opIndex;   // per thread: index of the operation its next action belongs to
    for (size_t j = 0; j < sched.size() && !stuck; ++j) {
      rc::step(j);
      Worker &w = *ws[sched[j][0].str()];
      const std::string &act = sched[j][1].str();
      int &oi = opIndex[w.name];
      const bool opFinished = (w.opsDone > oi);      // the code already completed this operation
      bool run = true, last = false;                  // last: this action ends the operation in the model
      if (act == "dropCS") last = false;
      else if (act == "dropCheck") { last = false; }
      else if (act == "dropDelete") { last = true; run = !opFinished; }
      else if (act == "copyCS") last = true;
      else if (act == "childCS") { last = false; run = (w.prog[oi][0].str() == "malloc"); }   // malloc: runs up to the counter update
      else if (act == "countRead") { last = false; run = false; }                                // the += cannot be split
      else if (act == "countWrite") { last = true; run = !opFinished; }
      if (run) {
        if (opFinished) { note = "code finished operation " + std::to_string(oi) + " of " + w.name + " before model action " + act; stuck = true; break; }
        sem_post(&w.go);
        if (!waitArrived(w, 30)) { note = "thread " + w.name + " did not reach the next yield point after " + act; stuck = true; break; }
      }
      if (last) {
        if (w.opsDone <= oi) { note = "model action " + act + " ends the operation but the code of " + w.name + " is still inside it (point " + std::to_string((int)w.atPoint) + ")"; stuck = true; break; }
        ++oi;
      }
    }
    if (stuck) {
      // cannot continue this case safely: report and leave the threads behind (process restarts)
      rc::emit("{\"beh\":" + std::to_string(rc::cur_beh) + ",\"stuck\":" + mj::quote(note) + "}");
      _exit(71);
    }
    for (auto &kv : ws) pthread_join(kv.second->th, nullptr);
    // quiescence: observe
    long liveHandles = 0;
    for (auto &kv : handles) if (kv.second) ++liveHandles;
    std::string out = "{\"beh\":" + std::to_string(rc::cur_beh) +
                      ",\"destroyed\":" + std::to_string(v::destroyedCount(v::kMemory, serial)) +
                      ",\"anomalies\":" + std::to_string(v::anomalies()) +
                      ",\"liveMemory\":" + std::to_string(v::live(v::kMemory)) +
                      ",\"liveHandles\":" + std::to_string(liveHandles) +
                      ",\"children\":" + std::to_string((long)device.getModeDevice()->memoryRing.length() - baseChildren) +
                      ",\"bytes\":" + std::to_string((long)device.memoryAllocated() - base) + "}";
    rc::emit(out);
    for (auto &kv : handles) if (kv.second) { delete kv.second; kv.second = nullptr; }
    for (auto &kv : blocks) for (occa::memory *m : kv.second) if (m) delete m;
    for (auto &kv : ws) delete kv.second;
  }
  return 0;
}
