// C25 replayer: executes OJson.tla histories on one occa::json document and reports, after every
// step, the document and EVERY read (const operator[], has, get<T>(default), size) of every path.
// No model in here: action names are mapped to API calls, results are printed.
//   input line : {"paths":[["a"],["b"],["a","a"],..], "steps":[{"a":"setPath"|"remove"|"set"|"merge",
//                 "p":["a","b"], "key":"..", "v":<value>}]}
//        value : {"k":"null"|"num"|"str"|"obj", "s":[token], "ks":[..], "c":[value..]}   (the spec's encoding)
//   output line: {"beh":i,"obs":[{"err":0|1,"S":doc,"S2":doc after the reads,"size":n,"keys":"a,b",
//                 "R":[{"C":const[] value,"H":0|1,"G":get<json>,"P":getPathValue,"Gi":get<int>,"Gs":get<string>,"Z":size}..]}..]}
#include "replay_core.hpp"
#include <occa/types/json.hpp>
#include <occa/utils/exception.hpp>
#include <cstdint>

using occa::json;

static std::string q(const std::string &s) { return mj::quote(s); }
static bool ubsan_halts = false;
extern "C" void __ubsan_on_report(void) { if (ubsan_halts) rc::crash_line("UBSAN"); }

// structure of a json value as the API shows it
static std::string S(const json &j) {
  if (!j.isInitialized()) return "~";
  if (j.isNull()) return "null";
  if (j.isBool()) return j.boolean() ? "B1" : "B0";
  if (j.isNumber()) return "I" + std::to_string((long long) (int64_t) j.number());
  if (j.isString()) return q(j.string());
  if (j.isArray()) {
    std::string o = "[";
    for (const json &e : j.array()) o += S(e) + ",";
    return o + "]";
  }
  if (j.isObject()) {
    std::string o = "{";
    for (const auto &kv : j.object()) o += q(kv.first) + ":" + S(kv.second) + ",";
    return o + "}";
  }
  return "?";
}

static json build(const mj::Value &t) {
  const std::string &k = t["k"].str();
  if (k == "null") return json(json::null_);
  if (k == "num") return json((int) atoi(t["s"][0].str().c_str()));
  if (k == "str") return json(t["s"][0].str());
  json j(json::object_);
  for (size_t i = 0; i < t["c"].size(); ++i) j.object()[t["ks"][i].str()] = build(t["c"][i]);
  return j;
}

// target = value, written the way user code writes it: typed assignment for scalars
static void assign(json &target, const mj::Value &v, int variant) {
  const std::string &k = v["k"].str();
  if (k == "num") { if (variant & 1) target = (int) atoi(v["s"][0].str().c_str()); else target = (int64_t) atoll(v["s"][0].str().c_str()); }
  else if (k == "str") { if (variant & 1) target = v["s"][0].str().c_str(); else target = v["s"][0].str(); }
  else target = build(v);
}
static void setKey(json &target, const std::string &key, const mj::Value &v, int variant) {
  const std::string &k = v["k"].str();
  if (k == "num") { if (variant & 1) target.set(key, (int) atoi(v["s"][0].str().c_str())); else target.set(key.c_str(), (int64_t) atoll(v["s"][0].str().c_str())); }
  else if (k == "str") { if (variant & 1) target.set(key, v["s"][0].str().c_str()); else target.set(key, v["s"][0].str()); }
  else target.set(key, build(v));
}

static std::string join(const mj::Value &p) {
  std::string s;
  for (size_t i = 0; i < p.size(); ++i) { if (i) s += "/"; s += p[i].str(); }
  return s;
}

int main(int argc, char **argv) {
  rc::init(argc, argv);
  ubsan_halts = getenv("UBSAN_OPTIONS") && strstr(getenv("UBSAN_OPTIONS"), "halt_on_error=1");
  std::string line;
  while (rc::next(line)) {
    mj::Value b = mj::parse(line);
    const mj::Value &steps = b["steps"], &paths = b["paths"];
    json doc;
    std::string out = "{\"beh\":" + std::to_string(rc::cur_beh) + ",\"obs\":[";
    for (size_t j = 0; j < steps.size(); ++j) {
      rc::step(j);
      const mj::Value &s = steps[j];
      const std::string &a = s["a"].str();
      const std::string path = join(s["p"]);
      const int variant = (int) ((rc::cur_beh + j) & 3);
      int err = 0;
      try {
        if (a == "setPath") {
          if (variant & 2) assign(doc[path], s["v"], variant); else assign(doc[path.c_str()], s["v"], variant);
        } else if (a == "remove") {
          if (variant & 2) doc.remove(path); else doc.remove(path.c_str());
        } else if (a == "set") {
          // the spec enables this only when the path exists: operator[] creates nothing then
          if (path.empty()) setKey(doc, s["key"].str(), s["v"], variant);
          else setKey(doc[path], s["key"].str(), s["v"], variant);
        } else if (a == "merge") {
          const json m = build(s["v"]);
          if (path.empty()) { if (variant & 2) doc += m; else doc = doc + m; }
          else doc[path] += m;
        } else { fprintf(stderr, "unknown action %s\n", a.c_str()); return 2; }
      } catch (occa::exception &e) { err = 1; }
      const json &cdoc = doc;
      const std::string before = S(cdoc);
      std::string R = "[";
      for (size_t i = 0; i < paths.size(); ++i) {
        const std::string p = join(paths[i]);
        std::string C, G, P, Gs; int H = 0, Z = 0; long long Gi = 0;
        try {
          const json &c = (variant & 1) ? cdoc[p] : cdoc[p.c_str()];
          C = S(c);
          Z = c.size();
          H = cdoc.has(p) ? 1 : 0;
          G = S(cdoc.get<json>(p, json("DFLT")));
          P = S(cdoc.getPathValue(p.c_str()));
          Gi = cdoc.get<int>(p, -7);
          Gs = cdoc.get<std::string>(p.c_str(), "DFLT");
        } catch (occa::exception &e) { C = "EXC"; }
        if (i) R += ",";
        R += "{\"C\":" + q(C) + ",\"H\":" + std::to_string(H) + ",\"G\":" + q(G) + ",\"P\":" + q(P) +
             ",\"Gi\":" + std::to_string(Gi) + ",\"Gs\":" + q(Gs) + ",\"Z\":" + std::to_string(Z) + "}";
      }
      std::string keys;
      for (const std::string &k : cdoc.keys()) keys += (keys.empty() ? "" : ",") + k;
      if (j) out += ",";
      out += "{\"err\":" + std::to_string(err) + ",\"S\":" + q(before) + ",\"S2\":" + q(S(cdoc)) +
             ",\"size\":" + std::to_string(cdoc.size()) + ",\"keys\":" + q(keys) + ",\"R\":" + R + "]}";
    }
    rc::emit(out + "]}");
  }
  return 0;
}
