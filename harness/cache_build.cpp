// C08/C09 build driver: ONE process that builds ONE kernel against $OCCA_CACHE_DIR, runs it and
// reports the value.  It is deliberately dumb: it contains no model of the cache.  It is run
//   * under `strace` for recording (trace validation against KernelCacheTrace.tla),
//   * under `strace -e inject=...:signal=SIGKILL:when=k` as the crashing builder (C08),
//   * under `strace -e inject=...:delay_enter=...:when=k` as the process held inside a window (C09),
//   * plainly as follow-up builder and as one of 2..16 concurrent builders released by a barrier.
//
// usage: cache_build <Serial|OpenMP> <string|file> <kernel-file> <a> [verbose]
//   string : the kernel text is read from <kernel-file> *before* the barrier and built with
//            device.buildKernelFromString
//   file   : device.buildKernel(<kernel-file>)
// env:  CB_BARRIER=<file>   take a shared flock on <file> before building (the controller holds it
//                           exclusively until every builder has announced itself on CB_READY_FD)
//       CB_READY_FD=<n>     write one byte to fd n when standing at the barrier
//       CB_DELAY_US=<n>     seeded start delay after the barrier
// stdout: OCCA's verbose lines (`Compiling [` / `Loading cached [`) and finally
//         RESULT ok=1 value=<sum> expect=<sum>
// exit:  0 value right, 5 value wrong, 3 occa::exception, 4 other exception
#include <occa.hpp>
#include <cstdio>
#include <cstdlib>
#include <cstring>
#include <fstream>
#include <sstream>
#include <string>
#include <vector>
#include <sys/file.h>
#include <fcntl.h>
#include <unistd.h>

static const int N = 37;

int main(int argc, char **argv) {
  if (argc < 5) {
    fprintf(stderr, "usage: cache_build <mode> <string|file> <kernel-file> <a> [verbose]\n");
    return 2;
  }
  const std::string mode = argv[1], kind = argv[2], kfile = argv[3];
  const int a = atoi(argv[4]);
  const bool verbose = argc > 5 && !strcmp(argv[5], "verbose");

  std::string text;
  if (kind == "string") {
    std::ifstream in(kfile.c_str());
    std::stringstream ss;
    ss << in.rdbuf();
    text = ss.str();
    if (text.empty()) { fprintf(stderr, "empty kernel text\n"); return 2; }
  }

  // barrier: announce, then block on a shared lock until the controller lets everybody go
  if (const char *b = getenv("CB_BARRIER")) {
    int fd = open(b, O_RDONLY);
    if (fd < 0) { perror("barrier"); return 2; }
    if (const char *r = getenv("CB_READY_FD")) {
      char c = 'r';
      if (write(atoi(r), &c, 1) != 1) { perror("ready"); return 2; }
    }
    if (flock(fd, LOCK_SH) != 0) { perror("flock"); return 2; }
    close(fd);
  }
  if (const char *d = getenv("CB_DELAY_US")) {
    usleep((useconds_t) atol(d));
  }

  int rcode = 0;
  try {
    occa::json dprops;
    dprops["mode"] = mode;
    occa::device device(dprops);
    occa::json kprops;
    if (verbose) kprops["verbose"] = true;

    occa::kernel k;
    if (kind == "string") {
      k = device.buildKernelFromString(text, "fill", kprops);
    } else {
      k = device.buildKernel(kfile, "fill", kprops);
    }

    std::vector<int> out(N, -1);
    occa::memory o_out = device.malloc<int>(N);
    o_out.copyFrom(out.data());
    k(N, a, o_out);
    device.finish();
    o_out.copyTo(out.data());

    long sum = 0, expect = 0;
    for (int i = 0; i < N; ++i) {
      sum += out[i];
      expect += (long) a * i + 7;
    }
    bool each = true;
    for (int i = 0; i < N; ++i) each = each && (out[i] == a * i + 7);
    printf("RESULT ok=%d value=%ld expect=%ld\n", (int) each, sum, expect);
    fflush(stdout);
    rcode = each ? 0 : 5;
  } catch (occa::exception &e) {
    fflush(stdout);
    fprintf(stderr, "OCCA-EXCEPTION: %s\n", e.what());
    rcode = 3;
  } catch (std::exception &e) {
    fflush(stdout);
    fprintf(stderr, "STD-EXCEPTION: %s\n", e.what());
    rcode = 4;
  }
  fflush(stderr);
  // no static destructors after a failed build: leave with the code directly
  _exit(rcode);
}
