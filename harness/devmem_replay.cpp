// C02 replayer: executes DeviceMemory.tla behaviours on occa::memory (Serial / OpenMP device)
// through the public API and reports, after EVERY call, what every handle shows
// (isInitialized, byte_size, dtype size, the bytes copyTo returns) and the wrapped host array.
// It contains no model: it maps action names to API calls.  occa::exception => "error";
// anything else (signal, sanitizer report, foreign exception) is a crash attributed to the step.
//
// input line : {"mode":"Serial","nviews":4,"host":[..],"steps":[{"a":..,"v":..,"w":..,"t":..,"e":..,"f":..,
//                "g":0|1,"dt":"int16","pat":[..],"noobs":0|1,"alts":[["x","y","z"],..]}, ..]}
//              (x, y, z are decimal strings: they may be anywhere in the int64 range)
// output line: {"beh":i,"mode":..,"obs":[[{"res":"ok|error","rd":[..],"rdtail":1,"v":[{i,n,e,b,tail}..],"h":[..]} per alt] per step]}
#include "replay_core.hpp"
#include <occa.hpp>
#include <cstdint>
#include <map>
#include <vector>

static const unsigned char SENT = 0xEE, SRCPAD = 0xDD;

// UBSan runs with halt_on_error=0 here: a report (signed overflow, null member access, ...) is recorded
// as part of the outcome of the call that caused it, and execution continues (restarting the process
// for every report would be slow).  __ubsan_on_report is UBSan's monitor hook.
extern "C" void __ubsan_get_current_report_data(const char **kind, const char **msg, const char **file,
                                                 unsigned *line, unsigned *col, char **addr) __attribute__((weak));
static std::string ubsanSeen;
extern "C" void __ubsan_on_report(void) {
  const char *kind = "report", *msg = "", *file = "";
  unsigned line = 0, col = 0;
  char *addr = 0;
  if (&__ubsan_get_current_report_data) __ubsan_get_current_report_data(&kind, &msg, &file, &line, &col, &addr);
  if (!ubsanSeen.empty()) return;
  const char *base = strrchr(file, '/');
  ubsanSeen = std::string(kind) + "@" + (base ? base + 1 : file) + ":" + std::to_string(line);
  for (char &c : ubsanSeen) if (c == '"' || c == '\\' || (unsigned char)c < 32) c = ' ';
}

static occa::device &deviceFor(const std::string &mode) {
  static std::map<std::string, occa::device> devs;
  auto it = devs.find(mode);
  if (it == devs.end()) {
    occa::json p;
    p["mode"] = mode;
    it = devs.insert(std::make_pair(mode, occa::device(p))).first;
  }
  return it->second;
}

static const occa::dtype_t &dtypeOf(const std::string &n) {
  using namespace occa::dtype;
  if (n == "byte") return byte;
  if (n == "char") return char_;
  if (n == "uint8") return uint8;
  if (n == "int8") return int8;
  if (n == "bool") return bool_;
  if (n == "short") return short_;
  if (n == "int16") return int16;
  if (n == "uint16") return uint16;
  if (n == "char2") return char2;
  if (n == "int") return int_;
  if (n == "int32") return int32;
  if (n == "uint32") return uint32;
  if (n == "float") return float_;
  if (n == "uchar4") return uchar4;
  if (n == "short2") return short2;
  if (n == "char3") return char3;
  if (n == "uchar3") return uchar3;
  if (n == "double") return double_;
  if (n == "int64") return int64;
  if (n == "float2") return float2;
  fprintf(stderr, "unknown dtype %s\n", n.c_str());
  exit(2);
}

struct World {
  occa::device dev;
  std::vector<occa::memory> slot;   // slot[0] stays default-constructed
  unsigned char *host = nullptr;
  size_t hostLen = 0;
  std::vector<unsigned char> src, dst;
};

static std::string bytesJson(const unsigned char *p, size_t n) {
  std::string s = "[";
  for (size_t i = 0; i < n; ++i) { if (i) s += ","; s += std::to_string((int)p[i]); }
  return s + "]";
}

static std::string observe(World &w) {
  std::string s = "\"v\":[";
  for (size_t i = 1; i < w.slot.size(); ++i) {
    occa::memory &m = w.slot[i];
    if (i > 1) s += ",";
    if (!m.isInitialized()) {
      // an uninitialised handle must also report size 0 everywhere
      s += "{\"i\":0,\"n\":" + std::to_string((long long)(m.byte_size() + m.length() + m.size())) + ",\"e\":0,\"b\":[]}";
      continue;
    }
    const size_t n = m.byte_size();
    const size_t e = m.dtype().bytes();
    const size_t L = m.length();
    const size_t S = m.size();
    std::vector<unsigned char> b(L * e + 32, SENT);
    std::string err;
    try { m.copyTo(b.data()); } catch (occa::exception &ex) { err = "copyTo"; }
    bool tail = true;
    for (size_t q = L * e; q < b.size(); ++q) tail = tail && (b[q] == SENT);
    s += "{\"i\":1,\"n\":" + std::to_string(n) + ",\"e\":" + std::to_string(e) + ",\"l\":" + std::to_string(L) +
         ",\"s\":" + std::to_string(S) + ",\"b\":" + bytesJson(b.data(), L * e) + ",\"tail\":" + (tail ? "1" : "0") +
         (err.empty() ? "" : ",\"err\":\"" + err + "\"") + "}";
  }
  s += "],\"h\":" + bytesJson(w.host, w.hostLen);
  return s;
}

template <class T>
static occa::memory tmalloc(occa::device &d, long long n, const void *src) { return d.malloc<T>(n, src); }

static std::string execute(World &w, const mj::Value &s, long long x, long long y, long long z) {
  const std::string &a = s["a"].str();
  const int v = (int)s["v"].i(), u = (int)s["w"].i(), t = (int)s["t"].i();
  const int e = (int)s["e"].i(), f = (int)s["f"].i(), g = (int)s["g"].i();
  const occa::dtype_t &dt = dtypeOf(s["dt"].str());
  occa::memory none;
  occa::memory &hv = v ? w.slot[v] : none;
  occa::memory none2;
  occa::memory &hw = u ? w.slot[u] : none2;
  // fresh source / destination host buffers
  const mj::Value &pat = s["pat"];
  std::fill(w.src.begin(), w.src.end(), SRCPAD);
  for (size_t i = 0; i < pat.size(); ++i) w.src[i] = (unsigned char)pat[i].i();
  std::fill(w.dst.begin(), w.dst.end(), SENT);
  std::string res = "ok", what;
  ubsanSeen.clear();
  try {
    if (a == "Malloc") {
      if (f) {
        if (g && e == 1) w.slot[t] = tmalloc<void>(w.dev, x, w.src.data());
        else if (g && e == 2) w.slot[t] = tmalloc<short>(w.dev, x, w.src.data());
        else if (g && e == 4) w.slot[t] = tmalloc<float>(w.dev, x, w.src.data());
        else w.slot[t] = w.dev.malloc(x, dt, w.src.data());
      } else {
        if (g && e == 1) w.slot[t] = w.dev.malloc<void>(x);
        else if (g && e == 2) w.slot[t] = w.dev.malloc<short>(x);
        else if (g && e == 4) w.slot[t] = w.dev.malloc<float>(x);
        else w.slot[t] = w.dev.malloc(x, dt);
      }
    } else if (a == "MallocFrom") {
      w.slot[t] = w.dev.malloc(x, dt, hv);
    } else if (a == "Wrap") {
      if (g && e == 1) w.slot[t] = w.dev.wrapMemory<void>(w.host + x, y);
      else if (g && e == 2) w.slot[t] = w.dev.wrapMemory<short>((short *)(w.host + x), y);
      else if (g && e == 4) w.slot[t] = w.dev.wrapMemory<float>((float *)(w.host + x), y);
      else w.slot[t] = w.dev.wrapMemory(w.host + x, y, dt);
    } else if (a == "Slice") {
      if (g && y == -1) w.slot[t] = hv.slice(x);
      else w.slot[t] = hv.slice(x, y);
    } else if (a == "Offset") {
      if (g) { occa::memory c = hv; c += x; w.slot[t] = c; }
      else w.slot[t] = hv + x;
    } else if (a == "Cast") {
      w.slot[t] = hv.cast(dt);
    } else if (a == "Clone") {
      w.slot[t] = hv.clone();
    } else if (a == "H2D") {
      if (g && y == -1 && x == 0) hv.copyFrom(w.src.data());
      else hv.copyFrom(w.src.data(), y, x);
    } else if (a == "D2H") {
      if (g && y == -1 && x == 0) hv.copyTo(w.dst.data());
      else hv.copyTo(w.dst.data(), y, x);
    } else if (a == "D2D") {
      if (f) {
        if (g && y == -1 && x == 0 && z == 0) hv.copyFrom(hw);
        else hv.copyFrom(hw, y, x, z);
      } else {
        if (g && y == -1 && x == 0 && z == 0) hw.copyTo(hv);
        else hw.copyTo(hv, y, x, z);
      }
    } else if (a == "Free") {
      hv.free();
    } else if (a == "HostPoke") {
      memcpy(w.host + x, w.src.data(), (size_t)y);   // the caller writes its own array, no OCCA call
    } else {
      fprintf(stderr, "unknown action %s\n", a.c_str());
      exit(2);
    }
  } catch (occa::exception &ex) {
    res = "error";
    what = ex.message;
  }
  if (what.size() > 60) what.resize(60);
  for (char &c : what) if (c == '"' || c == '\\' || (unsigned char)c < 32) c = ' ';
  bool rdtail = true;
  for (size_t q = 24; q < w.dst.size(); ++q) rdtail = rdtail && (w.dst[q] == SENT);
  const std::string ub = ubsanSeen;   // reports raised by the call itself (not by the read-back below)
  if (s["noobs"].i())                 // a scripted prefix step that was fully observed in an earlier behaviour
    return "{\"res\":\"" + res + "\",\"what\":\"" + what + "\",\"ubsan\":\"" + ub + "\",\"noobs\":1}";
  return "{\"res\":\"" + res + "\",\"what\":\"" + what + "\",\"ubsan\":\"" + ub + "\",\"rd\":" + bytesJson(w.dst.data(), 24) +
         ",\"rdtail\":" + (rdtail ? "1" : "0") + "," + observe(w) + "}";
}

int main(int argc, char **argv) {
  rc::init(argc, argv);
  std::string line;
  while (rc::next(line)) {
    rc::watchdog(60);
    mj::Value b = mj::parse(line);
    const std::string mode = b["mode"].str();
    World w;
    w.dev = deviceFor(mode);
    w.slot.resize((size_t)b["nviews"].i() + 1);
    const mj::Value &h = b["host"];
    w.hostLen = h.size();
    w.host = new unsigned char[w.hostLen ? w.hostLen : 1];
    for (size_t i = 0; i < w.hostLen; ++i) w.host[i] = (unsigned char)h[i].i();
    w.src.assign(4096, SRCPAD);
    w.dst.assign(4096, SENT);
    const mj::Value &steps = b["steps"];
    std::string out = "{\"beh\":" + std::to_string(rc::cur_beh) + ",\"mode\":\"" + mode + "\",\"obs\":[";
    for (size_t j = 0; j < steps.size(); ++j) {
      rc::step(j);
      const mj::Value &s = steps[j];
      const mj::Value &alts = s["alts"];
      if (j) out += ",";
      out += "[";
      for (size_t q = 0; q < alts.size(); ++q) {
        const long long x = strtoll(alts[q][0].str().c_str(), 0, 10);
        const long long y = strtoll(alts[q][1].str().c_str(), 0, 10);
        const long long z = strtoll(alts[q][2].str().c_str(), 0, 10);
        if (q) out += ",";
        out += execute(w, s, x, y, z);
      }
      out += "]";
    }
    rc::step((long)steps.size());   // clean-up is attributed to a step past the end
    for (size_t i = 1; i < w.slot.size(); ++i) w.slot[i].free();
    delete[] w.host;
    rc::emit(out + "]}");
  }
  return 0;
}
