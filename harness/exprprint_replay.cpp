// C15 replayer: texts generated from spec/lang/ExprPrint.tla / CGrammar.tla are run through
//   OCCA parse -> print -> OCCA parse -> print, and the trees are reported for comparison.
//   input  line: {"mode":"expr","text":"a - -b"}           expressionParser on the raw token stream
//                {"mode":"stmt","text":"void f(...) {...}"} parser_t on a translation unit
//   output line: {"beh":i,"ok1":bool,"t1":tree,"p1":"printed","ok2":bool,"t2":tree,"p2":"printed"}
// A tree is nested JSON arrays ["kind", label..., child...]; it is a plain structural dump of the
// exprNode / statement_t objects (kinds, operator spellings, literal spellings, children in order).
#include "replay_core.hpp"
#include <occa/internal/io/output.hpp>
#include <occa/internal/lang/expr.hpp>
#include <occa/internal/lang/parser.hpp>
#include <occa/internal/lang/tokenizer.hpp>
#include <occa/internal/lang/statement.hpp>
#include <occa/internal/lang/variable.hpp>

using namespace occa::lang;
static void swallow(const char *) {}
static std::string q(const std::string &s) { return mj::quote(s); }

static std::string tstr(const vartype_t &t) {
  printer pout;
  pout << t;
  return pout.str();
}

static std::string encName(int enc) {
  std::string s = (enc & encodingType::u8) ? "u8" : (enc & encodingType::u) ? "u" : (enc & encodingType::U) ? "U" : (enc & encodingType::L) ? "L" : "";
  if (enc & encodingType::R) s += "R";
  return s;
}
static std::string dumpExpr(exprNode *e);
static std::string dumpList(exprNodeVector &v) {
  std::string s = "[";
  for (size_t i = 0; i < v.size(); ++i) s += (i ? "," : "") + dumpExpr(v[i]);
  return s + "]";
}

static std::string dumpExpr(exprNode *e) {
  if (!e) return "[\"null\"]";
  const occa::udim_t t = e->type();
  if (t & exprNodeType::empty) return "[\"empty\"]";
  if (t & exprNodeType::primitive) return "[\"prim\"," + q(e->to<primitiveNode>().value.toString()) + "]";
  // literals: value plus the encoding prefix and user-defined suffix of the token the node was made from
  if (t & exprNodeType::char_) {
    std::string pre, udf;
    if (e->token && (e->token->type() & tokenType::char_)) { charToken &c = e->token->to<charToken>(); pre = encName(c.encoding); udf = c.udf; }
    return "[\"char\"," + q(e->to<charNode>().value) + "," + q(pre) + "," + q(udf) + "]";
  }
  if (t & exprNodeType::string) {
    std::string pre, udf;
    if (e->token && (e->token->type() & tokenType::string)) { stringToken &c = e->token->to<stringToken>(); pre = encName(c.encoding); udf = c.udf; }
    return "[\"str\"," + q(e->to<stringNode>().value) + "," + q(pre) + "," + q(udf) + "]";
  }
  if (t & exprNodeType::identifier) return "[\"id\"," + q(e->to<identifierNode>().value) + "]";
  if (t & exprNodeType::variable) return "[\"id\"," + q(e->to<variableNode>().value.name()) + "]";
  if (t & exprNodeType::function) return "[\"id\"," + q(e->to<functionNode>().value.name()) + "]";
  if (t & exprNodeType::type) return "[\"type\"," + q(e->to<typeNode>().value.name()) + "]";
  if (t & exprNodeType::vartype) return "[\"type\"," + q(tstr(e->to<vartypeNode>().value)) + "]";
  if (t & exprNodeType::leftUnary) { leftUnaryOpNode &n = e->to<leftUnaryOpNode>(); return "[\"un\"," + q(n.op.str) + "," + dumpExpr(n.value) + "]"; }
  if (t & exprNodeType::rightUnary) { rightUnaryOpNode &n = e->to<rightUnaryOpNode>(); return "[\"post\"," + q(n.op.str) + "," + dumpExpr(n.value) + "]"; }
  if (t & exprNodeType::binary) { binaryOpNode &n = e->to<binaryOpNode>(); return "[\"bin\"," + q(n.op.str) + "," + dumpExpr(n.leftValue) + "," + dumpExpr(n.rightValue) + "]"; }
  if (t & exprNodeType::ternary) { ternaryOpNode &n = e->to<ternaryOpNode>(); return "[\"tern\"," + dumpExpr(n.checkValue) + "," + dumpExpr(n.trueValue) + "," + dumpExpr(n.falseValue) + "]"; }
  if (t & exprNodeType::parentheses) return "[\"paren\"," + dumpExpr(e->to<parenthesesNode>().value) + "]";
  if (t & exprNodeType::subscript) { subscriptNode &n = e->to<subscriptNode>(); return "[\"index\"," + dumpExpr(n.value) + "," + dumpExpr(n.index) + "]"; }
  if (t & exprNodeType::call) { callNode &n = e->to<callNode>(); return "[\"call\"," + dumpExpr(n.value) + "," + dumpList(n.args) + "]"; }
  if (t & exprNodeType::sizeof_) return "[\"sizeof\"," + dumpExpr(e->to<sizeofNode>().value) + "]";
  if (t & exprNodeType::parenCast) { parenCastNode &n = e->to<parenCastNode>(); return "[\"cast\"," + q(tstr(n.valueType)) + "," + dumpExpr(n.value) + "]"; }
  if (t & exprNodeType::funcCast) { funcCastNode &n = e->to<funcCastNode>(); return "[\"fcast\"," + q(tstr(n.valueType)) + "," + dumpExpr(n.value) + "]"; }
  if (t & exprNodeType::static_cast_) { staticCastNode &n = e->to<staticCastNode>(); return "[\"scast\"," + q(tstr(n.valueType)) + "," + dumpExpr(n.value) + "]"; }
  if (t & exprNodeType::tuple) { tupleNode &n = e->to<tupleNode>(); return "[\"tuple\"," + dumpList(n.args) + "]"; }
  // anything else: kind number, printed form and generic children
  exprNodeVector ch;
  e->pushChildNodes(ch);
  return "[\"other\"," + std::to_string((unsigned long long) t) + "," + q(e->toString()) + "," + dumpList(ch) + "]";
}

static std::string dumpStatement(statement_t *s);
static std::string dumpChildren(blockStatement &b) {
  std::string r = "[";
  for (int i = 0; i < b.size(); ++i) r += (i ? "," : "") + dumpStatement(b[i]);
  return r + "]";
}
static std::string dumpVarDecl(variableDeclaration &d) {
  variable_t &v = d.variable();
  return "[\"var\"," + q(tstr(v.vartype)) + "," + q(v.name()) + "," + dumpExpr(d.value) + "]";
}

static std::string dumpStatement(statement_t *s) {
  if (!s) return "[\"null\"]";
  const int t = s->type();
  if (t & statementType::expression) return "[\"expr\"," + dumpExpr(s->to<expressionStatement>().expr) + "]";
  if (t & statementType::declaration) {
    declarationStatement &d = s->to<declarationStatement>();
    std::string r = "[\"decl\"";
    for (size_t i = 0; i < d.declarations.size(); ++i) r += "," + dumpVarDecl(d.declarations[i]);
    return r + "]";
  }
  if (t & statementType::empty) return "[\"emptystmt\"]";
  if (t & statementType::return_) return "[\"return\"," + dumpExpr(s->to<returnStatement>().value) + "]";
  if (t & statementType::break_) return "[\"break\"]";
  if (t & statementType::continue_) return "[\"continue\"]";
  if (t & statementType::if_) {
    ifStatement &f = s->to<ifStatement>();
    std::string r = "[\"if\"," + dumpStatement(f.condition) + "," + dumpChildren(f) + ",[";
    for (size_t i = 0; i < f.elifSmnts.size(); ++i) r += (i ? "," : "") + dumpStatement(f.elifSmnts[i]);
    return r + "]," + (f.elseSmnt ? dumpStatement(f.elseSmnt) : std::string("[\"noelse\"]")) + "]";
  }
  if (t & statementType::elif_) { elifStatement &f = s->to<elifStatement>(); return "[\"elif\"," + dumpStatement(f.condition) + "," + dumpChildren(f) + "]"; }
  if (t & statementType::else_) return "[\"else\"," + dumpChildren(s->to<elseStatement>()) + "]";
  if (t & statementType::for_) {
    forStatement &f = s->to<forStatement>();
    return "[\"for\"," + dumpStatement(f.init) + "," + dumpStatement(f.check) + "," + dumpStatement(f.update) + "," + dumpChildren(f) + "]";
  }
  if (t & statementType::while_) {
    whileStatement &w = s->to<whileStatement>();
    return std::string("[\"") + (w.isDoWhile ? "dowhile" : "while") + "\"," + dumpStatement(w.condition) + "," + dumpChildren(w) + "]";
  }
  if (t & statementType::switch_) { switchStatement &w = s->to<switchStatement>(); return "[\"switch\"," + dumpStatement(w.condition) + "," + dumpChildren(w) + "]"; }
  if (t & statementType::case_) return "[\"case\"," + dumpExpr(s->to<caseStatement>().value) + "]";
  if (t & statementType::default_) return "[\"default\"]";
  if (t & statementType::functionDecl) {
    functionDeclStatement &f = s->to<functionDeclStatement>();
    return "[\"function\"," + q(f.function().name()) + "," + dumpChildren(f) + "]";
  }
  if (t & statementType::function) return "[\"funcproto\"," + q(s->to<functionStatement>().function().name()) + "]";
  if (t & statementType::block) return "[\"block\"," + dumpChildren(s->to<blockStatement>()) + "]";
  return "[\"otherstmt\"," + std::to_string(t) + "," + q(s->toString()) + "]";
}

static bool runExpr(const std::string &text, std::string &tree, std::string &printed) {
  tokenVector tokens = tokenizer_t::tokenize(text);
  exprNode *e = expressionParser::parse(tokens);
  if (!e) return false;
  tree = dumpExpr(e);
  printed = e->toString();
  delete e;
  return true;
}

static bool runStmt(const std::string &text, std::string &tree, std::string &printed) {
  static parser_t parser;      // one parser for all cases, as the repository's parser tests do
  parser.parseSource(text);
  if (!parser.success) return false;
  tree = "[\"root\"," + dumpChildren(parser.root) + "]";
  printed = parser.toString();
  return true;
}

int main(int argc, char **argv) {
  rc::init(argc, argv);
  if (!getenv("REPLAY_VERBOSE")) {
    occa::io::stderr.setOverride(swallow);
    occa::io::stdout.setOverride(swallow);
  }
  std::string line;
  while (rc::next(line)) {
    mj::Value c = mj::parse(line);
    const std::string text = c["text"].str();
    const bool stmt = c["mode"].str() == "stmt";
    rc::watchdog(getenv("REPLAY_WATCHDOG") ? atoi(getenv("REPLAY_WATCHDOG")) : 60);
    std::string out = "{\"beh\":" + std::to_string(rc::cur_beh);
    try {
      std::string t1, p1, t2, p2;
      rc::step(0);
      const bool ok1 = stmt ? runStmt(text, t1, p1) : runExpr(text, t1, p1);
      out += std::string(",\"ok1\":") + (ok1 ? "true" : "false");
      if (ok1) {
        out += ",\"t1\":" + t1 + ",\"p1\":" + q(p1);
        rc::step(1);
        const bool ok2 = stmt ? runStmt(p1, t2, p2) : runExpr(p1, t2, p2);
        out += std::string(",\"ok2\":") + (ok2 ? "true" : "false");
        if (ok2) out += ",\"t2\":" + t2 + ",\"p2\":" + q(p2);
      }
    } catch (std::exception &e) {
      out += ",\"exc\":" + q(e.what());
    }
    rc::watchdog(0);
    rc::emit(out + "}");
  }
  return 0;
}
