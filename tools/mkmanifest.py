#!/usr/bin/env python3
"""Regenerates /verif/MANIFEST.json from the table below and validates it against the schema."""
import json, os, subprocess, sys
V = os.path.dirname(os.path.dirname(os.path.abspath(__file__)))
ALL = ["C%02d" % i for i in range(1, 31)]

# one file per property: checks/meta/<id>.json with keys level, technique, text, note, design_ref
CHECKS = {}
for f in sorted(os.listdir(os.path.join(V, "checks", "meta"))):
    if f.endswith(".json"):
        d = json.load(open(os.path.join(V, "checks", "meta", f)))
        CHECKS[f[:-5]] = (d["level"], d["technique"], d["text"], d["note"], d.get("design_ref", "DESIGN.md section 5"))
NOT_YET = "check not built yet in this round of work (planned, see DESIGN.md section 5); not claimed"

def main():
    checks = []
    for pid in ALL:
        if pid not in CHECKS:
            continue
        level, tech, text, note, ref = CHECKS[pid]
        checks.append({
            "property_id": pid,
            "quick_cmd": "./check %s --tier quick" % pid,
            "thorough_cmd": "./check %s --tier thorough" % pid,
            "evidence_file": "/verif/evidence/%s.json" % pid,
            "replay_cmd_template": "./check %s --replay {path}" % pid,
            "engine": "tlc+replay",
            "level_claimed": {"category": level, "text": text, "design_ref": ref},
            "level_note": note,
            "technique": tech,
        })
    hooks_commits = []
    hc = os.path.join(V, "HOOK_COMMITS.txt")
    if os.path.exists(hc):
        hooks_commits = [l.split()[0] for l in open(hc) if l.strip() and not l.startswith("#")]
    na_reasons = {}
    nap = os.path.join(V, "tools", "not_applicable.json")
    if os.path.exists(nap):
        na_reasons = json.load(open(nap))
    m = {
        "version": 1,
        "setup_cmd": "tools/setup.sh",
        "hooks": {
            "guard": "LIBOCCA_OCCA_VERIF",
            "enable": "tools/build.sh <asan|fast|tsan> configures an out-of-tree CMake/Ninja build of /repo's working tree under /verif/build/occa-<variant> with -DLIBOCCA_OCCA_VERIF=1 in CMAKE_CXX_FLAGS (every check calls it; incremental)",
            "baseline_off_cmd": "cmake --build /repo/_build -j16 && ctest --test-dir /repo/_build -j8 --timeout 900",
            "source_commits": hooks_commits,
            "add_only": True,
        },
        "engines": [
            {"name": "tlc+replay", "path": "/verif/check", "serves_properties": sorted(CHECKS),
             "kind_free_text": "TLA+ specifications under /verif/spec checked with TLC; TLC-generated behaviours replayed on the real library (C++ harnesses under /verif/harness, ASan/UBSan builds of /repo's working tree) and implementation traces validated against trace specs"},
        ],
        "checks": checks,
        "notes": "Model-based verification with explicit TLA+ specifications; see DESIGN.md. KNOWN_FINDINGS.txt lists recorded findings (known:) and repaired defects (fixed:).",
        "not_applicable": [{"property_id": p, "reason": na_reasons.get(p, NOT_YET)} for p in ALL if p not in CHECKS],
    }
    out = os.path.join(V, "MANIFEST.json")
    json.dump(m, open(out, "w"), indent=1)
    open(out, "a").write("\n")
    code = "import json,jsonschema,sys; jsonschema.validate(json.load(open('%s')), json.load(open('/root/.vp/MANIFEST.schema.json'))); print('MANIFEST valid:', %d, 'checks')" % (out, len(checks))
    subprocess.check_call(["python3-vt", "-c", code])

if __name__ == "__main__":
    main()
