#!/bin/bash
# tools/build.sh <variant> : (re)build libocca from the *current working tree* of $VERIF_REPO
# (default /repo) into $VERIF_BUILD/<variant> (default /verif/build/<variant>), hooks ON.
# Variants: asan (ASan+UBSan, -O1), fast (-O2), tsan (ENABLE_SHARABLE_DEVICE + TSan)
# Incremental (ninja) and serialized with flock so concurrent checks share one build.
set -euo pipefail
variant="${1:?variant}"
REPO="${VERIF_REPO:-/repo}"
BROOT="${VERIF_BUILD:-/verif/build}"
B="$BROOT/occa-$variant"
mkdir -p "$B"
common="-Wno-error -DLIBOCCA_OCCA_VERIF=1 -fno-omit-frame-pointer"
case "$variant" in
  asan) flags="$common -O1 -g1 -fsanitize=address,undefined -fno-sanitize=vptr"; extra="";;
  fast) flags="$common -O2 -g1"; extra="";;
  tsan) flags="$common -O1 -g1 -fsanitize=thread"; extra="-DENABLE_SHARABLE_DEVICE=ON";;
  *) echo "unknown variant $variant" >&2; exit 2;;
esac
launcher=""
if command -v ccache >/dev/null 2>&1; then
  export CCACHE_DIR="${CCACHE_DIR:-/verif/build/.ccache}" CCACHE_BASEDIR="$REPO" CCACHE_NOHASHDIR=1 CCACHE_MAXSIZE=8G
  launcher="-DCMAKE_CXX_COMPILER_LAUNCHER=ccache -DCMAKE_C_COMPILER_LAUNCHER=ccache"
fi
exec 9>"$B/.lock"
flock 9
if [ ! -f "$B/build.ninja" ]; then
  cmake -G Ninja -S "$REPO" -B "$B" -DCMAKE_BUILD_TYPE=None \
    -DCMAKE_CXX_FLAGS="$flags" -DCMAKE_C_FLAGS="$flags" \
    -DOCCA_ENABLE_TESTS=OFF -DOCCA_ENABLE_EXAMPLES=OFF -DOCCA_ENABLE_FORTRAN=OFF $launcher $extra \
    > "$B/cmake.log" 2>&1 || { cat "$B/cmake.log" >&2; exit 2; }
fi
if ! ninja -C "$B" libocca > "$B/ninja.log" 2>&1; then
  tail -40 "$B/ninja.log" >&2
  echo "BUILD-FAILED variant=$variant" >&2
  exit 2
fi
echo "$B"
