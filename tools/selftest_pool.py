#!/usr/bin/env python3
"""Binding self-test for the C03/C04 trace validation (DESIGN §6.3, §9): take a real, accepted log of
the pool replayer, corrupt one recorded field / drop one event / swap two events, and require that TLC
flags or rejects it.  Exit 0 when every corruption is noticed and the untouched log is clean."""
import copy, json, os, sys
sys.path.insert(0, os.path.dirname(os.path.abspath(__file__)))
sys.path.insert(0, os.path.join(os.path.dirname(os.path.abspath(__file__)), "..", "checks"))
import vlib
from poolcheck import clamp

CASE = {"align": 2, "unit": 1, "steps": [
    {"op": "reserve", "n": 3}, {"op": "slice", "r": 1, "o": 1, "n": 2}, {"op": "reserve", "n": 2},
    {"op": "write", "r": 2, "salt": 5}, {"op": "release", "r": 1}, {"op": "resize", "mode": "below", "k": 1},
    {"op": "align", "a": 3}, {"op": "reserve", "n": 1}, {"op": "resize", "mode": "fit", "k": 1}]}


def validate(ctx, events, name):
    path = os.path.join(ctx.tmp, name + ".ndjson")
    with open(path, "w") as f:
        for ev in events:
            f.write(json.dumps(clamp(ev)) + "\n")
    r = ctx.tlc("trace/MemoryPoolTrace.tla", "trace/MemoryPoolTrace.cfg", workers=1, env={"TRACE": path}, count=False)
    verdicts = [l for l in r.out.splitlines() if l.startswith('<<"V"')]
    return r.rc, verdicts


def main():
    ctx = vlib.Ctx("SELFTEST-pool", "quick", 1)
    exe, lib = ctx.build_harness("pool_replay", ["pool_replay.cpp"])
    outs, crashes = vlib.run_replayer(ctx, exe, ctx.occa_env(lib), [CASE])
    assert not crashes and 0 in outs, (crashes, outs)
    base = outs[0]["ev"]
    base[0]["unit"] = outs[0]["unit"]
    results = []

    def expect(name, events, want):
        rc, v = validate(ctx, events, name)
        noticed = (rc != 0) or bool(v)
        ok = noticed == want
        results.append((name, ok, rc, v[:2]))

    expect("untouched", base, False)
    e = copy.deepcopy(base); e[3]["res"][0]["off"] += 1               # a reservation reported one byte off
    expect("offset+1", e, True)
    e = copy.deepcopy(base); e[2]["reserved"] += 2                    # wrong reserved()
    expect("reserved+2", e, True)
    e = copy.deepcopy(base); e[4]["res"][1]["data"][0] ^= 1           # one byte read back differently
    expect("data-bit", e, True)
    e = copy.deepcopy(base); del e[2]                                 # the slice event is missing
    expect("dropped-slice-event", e, True)
    e = copy.deepcopy(base); e[6]["err"] = 0                          # resize below reserved reported as accepted
    expect("resize-below-accepted", e, True)
    e = copy.deepcopy(base); e[5], e[3] = e[3], e[5]                  # release before the reserve it follows
    expect("swapped-events", e, True)
    e = copy.deepcopy(base); e[1]["nres"] = 2                         # numReservations off
    expect("count", e, True)
    bad = [r for r in results if not r[1]]
    for r in results:
        print(("ok   " if r[1] else "FAIL ") + r[0], "rc=%s" % r[2], r[3])
    import shutil
    shutil.rmtree(ctx.tmp, ignore_errors=True)
    return 1 if bad else 0


if __name__ == "__main__":
    sys.exit(main())
