#!/bin/bash
# tools/run_all.sh [tier] [ids...] : run the registered checks one after another against /repo and
# print one summary line per property (exit code, wall time, verdict lines).
tier=${1:-quick}; shift
ids=${@:-$(python3 -c "import json;print(' '.join(c['property_id'] for c in json.load(open('/verif/MANIFEST.json'))['checks']))")}
cd /verif
for id in $ids; do
  t0=$(date +%s)
  out=$(./check $id --tier $tier 2>&1); rc=$?
  t1=$(date +%s)
  echo "$id rc=$rc wall=$((t1-t0))s $(echo "$out" | grep -cE '^KNOWN-FINDING') known $(echo "$out" | grep -cE '^VIOLATION') violations"
  echo "$out" | grep -E '^(VIOLATION|BROKEN)' | cut -c1-240
done
