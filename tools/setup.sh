#!/bin/bash
# MANIFEST.setup_cmd: build the library variants (hooks on) from /repo's working tree. Offline.
set -uo pipefail
cd "$(dirname "$0")/.."
rc=0
tools/build.sh asan >/dev/null & p1=$!
tools/build.sh fast >/dev/null & p2=$!
wait $p1 || rc=2
wait $p2 || rc=2
exit $rc
