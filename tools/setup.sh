#!/bin/bash
# MANIFEST.setup_cmd: build the three library variants (hooks on) from /repo's working tree. Offline.
#   asan : ASan+UBSan, used by the in-process replayers
#   fast : -O2, used where kernels are JIT-compiled / processes spawned in bulk
#   tsan : ENABLE_SHARABLE_DEVICE + ThreadSanitizer, used by C30
# Every check re-runs the (incremental, flock-protected) build it needs, so this is only a warm-up.
set -uo pipefail
cd "$(dirname "$0")/.."
rc=0
tools/build.sh asan >/dev/null & p1=$!
tools/build.sh fast >/dev/null & p2=$!
wait $p1 || rc=2
wait $p2 || rc=2
tools/build.sh tsan >/dev/null || rc=2
exit $rc
