#!/bin/bash
# Run checks against a seeded change without touching /repo:
#   tools/run_seed.sh seeded/C28-1 [tier] [check-id ...]     (default: tier quick, the seed's own property)
# Creates a scratch worktree of /repo's HEAD under /tmp, applies <seed>/patch.diff, runs ./check with
# VERIF_REPO / VERIF_BUILD pointing at the scratch copy (evidence goes to $VERIF_BUILD/evidence-scratch,
# never to /verif/evidence), prints one summary line per check, and removes the worktree and its build.
set -uo pipefail
here="$(cd "$(dirname "$0")/.." && pwd)"
seed="$(cd "$1" && pwd)"; shift
tier="${1:-quick}"; [ $# -gt 0 ] && shift
name="$(basename "$seed")"
ids=("$@"); [ ${#ids[@]} -eq 0 ] && ids=("${name%%-*}")
wt="/tmp/wt-seed-$name-$$"; vb="/tmp/vb-seed-$name-$$"
cleanup() { git -C /repo worktree remove --force "$wt" >/dev/null 2>&1; rm -rf "$wt" "$vb"; git -C /repo worktree prune; }
trap cleanup EXIT
git -C /repo worktree add --detach "$wt" HEAD >/dev/null 2>&1 || { echo "cannot create worktree"; exit 2; }
git -C "$wt" apply "$seed/patch.diff" || { echo "patch does not apply to /repo HEAD"; exit 2; }
rc_all=0
for id in "${ids[@]}"; do
  out="$vb/$id.out"; mkdir -p "$vb"
  VERIF_REPO="$wt" VERIF_BUILD="$vb" "$here/check" "$id" --tier "$tier" > "$out" 2>&1; rc=$?
  nv=$(grep -c '^VIOLATION' "$out")
  echo "$name $id tier=$tier exit=$rc violations=$nv $(grep -m1 -o 'sig=[^ ]*' "$out")"
  grep -m3 '^VIOLATION\|^BROKEN' "$out" | cut -c1-300
  [ $rc -ne 0 ] && rc_all=$rc
done
exit $rc_all
