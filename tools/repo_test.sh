#!/bin/bash
# Rebuild /repo/_build (the baseline configuration: guard OFF) and run the pinned 61-test suite.
# Serialised with flock so that concurrent callers do not trample each other.
set -uo pipefail
exec 9>/repo/_build/.verif-lock
flock 9
cmake --build /repo/_build -j16 > /tmp/repo_build.log 2>&1 || { tail -30 /tmp/repo_build.log; echo "BASELINE BUILD FAILED"; exit 2; }
ctest --test-dir /repo/_build -j8 --timeout 900 2>&1 | tail -8
