"""vlib -- shared machinery of the /verif checks.

Every check is a python module checks/<id>.py with `run(ctx)`; `ctx` (class Ctx) offers:
  ctx.build_lib(variant)           incremental build of libocca from $VERIF_REPO's working tree
  ctx.build_harness(name, ...)     compile a C++ harness against that build
  ctx.tlc(...)                     run TLC (model checking / behaviour generation / trace validation)
  ctx.mismatch(sig, what, replay)  report a divergence between spec and implementation;
                                   classified against KNOWN_FINDINGS.txt
  ctx.finish(...)                  write evidence, print VIOLATION / KNOWN-FINDING lines, exit code

Exit codes: 0 = property held on everything explored (known findings printed),
            1 = violation (VIOLATION line printed), 2 = the check itself is broken (tool failure).
"""
import json, os, re, subprocess, sys, time, shutil, hashlib, fcntl, random

VERIF = os.path.dirname(os.path.dirname(os.path.abspath(__file__)))
REPO = os.environ.get("VERIF_REPO", "/repo")
BROOT = os.environ.get("VERIF_BUILD", os.path.join(VERIF, "build"))
TLA_JAR = "/opt/veriftools/tla/tla2tools.jar:/opt/veriftools/tla/CommunityModules-deps.jar"


import itertools
_counter = itertools.count()


class Broken(Exception):
    """The check's own machinery failed (never reported as a violation)."""


def sh(cmd, timeout=None, env=None, cwd=None, input=None, check=False):
    e = dict(os.environ)
    if env:
        e.update(env)
    p = subprocess.run(cmd, shell=isinstance(cmd, str), stdout=subprocess.PIPE,
                       stderr=subprocess.STDOUT, timeout=timeout, env=e, cwd=cwd,
                       input=input, text=True, errors="replace")
    if check and p.returncode != 0:
        raise Broken("command failed (%d): %s\n%s" % (p.returncode, cmd, p.stdout[-3000:]))
    return p.returncode, p.stdout


class TlcResult:
    def __init__(self):
        self.rc = None
        self.out = ""
        self.generated = 0
        self.distinct = 0
        self.depth = 0
        self.violated = None      # name of violated invariant/property, if any
        self.printed = []         # values printed with PrintT(<<"B", ...>>) style lines
        self.coverage = {}        # action -> (taken, generated) when -coverage was on
        self.wall = 0.0

    @property
    def ok(self):
        return self.rc == 0


class Ctx:
    def __init__(self, pid, tier, seed, replay=None):
        self.pid = pid
        self.tier = tier
        self.seed = seed
        self.replay = replay
        self.t0 = time.time()
        self.mismatches = []       # (sig, what, replay_path)
        self.known = load_known()
        self.cov = {}
        self.assumptions = []
        self.samples = []
        self.tmp = os.path.join(BROOT, "work", "%s-%d" % (pid, os.getpid()))
        os.makedirs(self.tmp, exist_ok=True)
        self.replays_dir = (os.path.join(VERIF, "evidence", "replays") if os.path.realpath(REPO) == "/repo"
                            else os.path.join(BROOT, "evidence-scratch", "replays"))
        os.makedirs(self.replays_dir, exist_ok=True)
        self.level = "model_checking"
        self.tlc_states = 0
        self.tlc_transitions = 0
        self.traces_validated = 0
        self.notes = []

    # ---------------------------------------------------------------- builds
    def build_lib(self, variant):
        rc, out = sh([os.path.join(VERIF, "tools", "build.sh"), variant], timeout=9000)
        if rc != 0:
            raise Broken("library build failed (%s):\n%s" % (variant, out[-4000:]))
        return out.strip().splitlines()[-1]

    def cxxflags(self, variant):
        if variant == "asan":
            return ["-O1", "-g1", "-fsanitize=address,undefined", "-fno-sanitize=vptr",
                    "-fno-omit-frame-pointer"]
        if variant == "tsan":
            return ["-O1", "-g1", "-fsanitize=thread"]
        return ["-O2", "-g1"]

    def build_harness(self, name, sources, variant="asan", extra=(), internal=True, cc="g++"):
        """Compile harness/<sources> into build/harness/<variant>/<name>; relinks when the
        library or a source changed."""
        lib = self.build_lib(variant)
        outdir = os.path.join(BROOT, "harness", variant)
        os.makedirs(outdir, exist_ok=True)
        exe = os.path.join(outdir, name)
        srcs = [s if os.path.isabs(s) else os.path.join(VERIF, "harness", s) for s in sources]
        deps = srcs + [os.path.join(VERIF, "harness", f) for f in os.listdir(os.path.join(VERIF, "harness"))
                       if f.endswith(".hpp")]
        # headers of the repo may have changed: key on newest mtime under include/ + src headers
        stamp = newest_mtime([os.path.join(REPO, "include"), os.path.join(REPO, "src")], (".hpp", ".h", ".tpp"))
        libso = os.path.join(lib, "lib", "libocca.so")
        need = (not os.path.exists(exe)
                or any(os.path.getmtime(d) > os.path.getmtime(exe) for d in deps)
                or stamp > os.path.getmtime(exe)
                or os.path.getmtime(libso) > os.path.getmtime(exe))
        if need:
            lock = open(exe + ".lock", "w")
            fcntl.flock(lock, fcntl.LOCK_EX)
            inc = ["-I", os.path.join(REPO, "include"), "-I", os.path.join(lib, "include"),
                   "-I", os.path.join(VERIF, "harness")]
            if internal:
                inc += ["-I", os.path.join(REPO, "src")]
            cmd = [cc, "-std=c++17", "-DLIBOCCA_OCCA_VERIF=1", "-Wno-deprecated-declarations"] + self.cxxflags(variant) + list(extra) + inc + \
                  srcs + ["-o", exe + ".tmp", "-L", os.path.join(lib, "lib"), "-locca",
                          "-Wl,-rpath," + os.path.join(lib, "lib"), "-lpthread", "-ldl"]
            rc, out = sh(cmd, timeout=900)
            if rc != 0:
                raise Broken("harness build failed (%s):\n%s" % (name, out[-6000:]))
            os.replace(exe + ".tmp", exe)
            lock.close()
        return exe, lib

    def occa_env(self, lib, cache_name=None):
        """Environment for running a harness linked against build dir `lib`."""
        cache = os.path.join(self.tmp, cache_name or "occa-cache")
        os.makedirs(cache, exist_ok=True)
        return {
            "OCCA_DIR": REPO,
            "OCCA_CACHE_DIR": cache,
            "OCCA_VERBOSE": "0",
            "ASAN_OPTIONS": "detect_leaks=0:abort_on_error=0:exitcode=86:detect_stack_use_after_return=0",
            "UBSAN_OPTIONS": "print_stacktrace=1:halt_on_error=1:exitcode=87",
            "LD_LIBRARY_PATH": os.path.join(lib, "lib") + ":" + os.environ.get("LD_LIBRARY_PATH", ""),
            "OCCA_CXX": "g++",
        }

    # ---------------------------------------------------------------- TLC
    def tlc(self, spec, cfg, workers=8, simulate=None, depth=None, coverage=False,
            env=None, timeout=1500, deadlock=True, jvm=(), dfs=False, count=True, extra=(),
            expect_violation=False):
        """spec, cfg relative to /verif/spec. Returns TlcResult. rc!=0 and no invariant
        violation => Broken."""
        specp = os.path.join(VERIF, "spec", spec)
        cfgp = os.path.join(VERIF, "spec", cfg)
        meta = os.path.join(self.tmp, "tlc-%d-%d" % (os.getpid(), next(_counter)))
        os.makedirs(meta, exist_ok=True)
        flat = os.path.join(meta, "spec")      # TLC resolves EXTENDS in the spec's directory only:
        os.makedirs(flat, exist_ok=True)       # give it a flat view (symlinks) of spec/**
        for root, _, files in os.walk(os.path.join(VERIF, "spec")):
            for f in files:
                if f.endswith(".tla"):
                    dst = os.path.join(flat, f)
                    if not os.path.exists(dst):
                        os.symlink(os.path.join(root, f), dst)
        specp = os.path.join(flat, os.path.basename(specp))
        cmd = ["java", "-XX:+UseParallelGC", "-Xss64m"] + list(jvm)
        if dfs:
            cmd.append("-Dtlc2.tool.queue.IStateQueue=StateDeque")
        cmd += ["-cp", TLA_JAR, "tlc2.TLC",
                "-metadir", meta, "-workers", str(workers), "-config", cfgp]
        if not deadlock:
            cmd.append("-deadlock")
        if simulate is not None:
            cmd += ["-simulate", "num=%d" % simulate]
            cmd += ["-seed", str(self.seed)]
        if depth is not None:
            cmd += ["-depth", str(depth)]
        if coverage:
            cmd += ["-coverage", "1"]
        cmd += list(extra)
        cmd.append(specp)
        t = time.time()
        e = dict(os.environ)
        if env:
            e.update(env)
        try:
            p = subprocess.run(cmd, stdout=subprocess.PIPE, stderr=subprocess.STDOUT, text=True,
                               errors="replace", timeout=timeout, env=e, cwd=os.path.dirname(specp))
            rc, out = p.returncode, p.stdout
        except subprocess.TimeoutExpired as ex:
            rc, out = 124, (ex.stdout or b"").decode(errors="replace") if isinstance(ex.stdout, bytes) else (ex.stdout or "")
        shutil.rmtree(meta, ignore_errors=True)
        r = TlcResult()
        r.rc, r.out, r.wall = rc, out, time.time() - t
        m = None
        for m in re.finditer(r"(\d+) states generated, (\d+) distinct states found", out):
            pass
        if m:
            r.generated, r.distinct = int(m.group(1)), int(m.group(2))
        m = re.search(r"The depth of the complete state graph search is (\d+)", out)
        if m:
            r.depth = int(m.group(1))
        m = re.search(r"Invariant (\S+) is violated", out) or re.search(r"(Temporal properties were violated|Action property \S+ is violated|Deadlock reached)", out)
        if m:
            r.violated = m.group(1)
        for line in out.splitlines():
            if line.startswith('<<"B", ') or line.startswith("<<\"B\","):
                r.printed.append(line)
        if coverage:
            for m in re.finditer(r"<(\w+) line \d+, col \d+ to line \d+, col \d+ of module (\w+)(?: \((\d+) (\d+) (\d+) (\d+)\))?>: (\d+):(\d+)", out):
                a = m.group(1)
                if m.group(3):
                    # a disjunct of Next under a state-dependent \E: name it after the action it applies
                    a = _action_at(m.group(2), int(m.group(3)), int(m.group(4)), int(m.group(6))) or a
                tk, gn = int(m.group(7)), int(m.group(8))
                old = r.coverage.get(a, (0, 0))
                r.coverage[a] = (old[0] + tk, old[1] + gn)
        if count:
            self.tlc_states += r.distinct
            self.tlc_transitions += r.generated
        if rc != 0 and not (expect_violation and r.violated) and rc != 124:
            if r.violated is None or not expect_violation:
                # 12 = safety violation, 10 = assumption/postcondition; others are tool errors
                pass
        return r

    def tlc_must_pass(self, r, what):
        if r.rc != 0:
            raise Broken("TLC %s did not pass (rc=%s, violated=%s):\n%s" % (what, r.rc, r.violated, tail(r.out, 60)))

    def require_coverage(self, r, actions):
        missing = [a for a in actions if r.coverage.get(a, (0, 0))[1] == 0]  # (new states, successors generated)
        if missing:
            raise Broken("vacuity: actions never taken in the model run: %s" % missing)

    # ---------------------------------------------------------------- reporting
    def save_replay(self, name, content):
        path = os.path.join(self.replays_dir, "%s-%s" % (self.pid, name))
        with open(path, "w") as f:
            if isinstance(content, str):
                f.write(content)
            else:
                for rec in content:
                    f.write(json.dumps(rec) + "\n")
        return path

    def mismatch(self, sig, what, replay_content=None, replay_name=None):
        """Record a divergence. `sig` is the specific signature matched against KNOWN_FINDINGS."""
        for (s, w, p) in self.mismatches:
            if s == sig:
                return  # one report per signature
        path = ""
        if replay_content is not None:
            nm = replay_name or (re.sub(r"[^A-Za-z0-9_.-]+", "_", sig)[:60] + ".ndjson")
            path = self.save_replay(nm, replay_content)
        self.mismatches.append((sig, what, path))

    def finish(self, coverage_extra=None, exhaustive=None):
        known_hits, viol = [], []
        for (sig, what, path) in self.mismatches:
            k = self.known.get((self.pid, sig))
            if k is not None:
                known_hits.append((sig, k, path))
            else:
                viol.append((sig, what, path))
        for (sig, desc, path) in known_hits:
            print("KNOWN-FINDING: property=%s sig=%s %s" % (self.pid, sig, desc))
        for (sig, what, path) in viol:
            print("VIOLATION property=%s replay=%s sig=%s :: %s" % (self.pid, path or "-", sig, " | ".join(what.splitlines())[:900]))
        cov = {}
        if self.level == "model_checking":
            cov["states"] = self.tlc_states
            cov["transitions"] = self.tlc_transitions
            cov["traces_validated_against_impl"] = self.traces_validated
        cov["samples"] = self.samples[:6] if self.samples else ["(none)"]
        cov.update(self.cov)
        if coverage_extra:
            cov.update(coverage_extra)
        if exhaustive is not None:
            cov["exhaustive"] = exhaustive
        cov["known_findings_reobserved"] = [s for (s, _, _) in known_hits]
        ev = {
            "property_id": self.pid, "tier": self.tier, "seed": self.seed, "level": self.level,
            "coverage": cov, "assumptions": self.assumptions,
            "wall_s": round(time.time() - self.t0, 2), "violations": len(viol),
            "notes": self.notes,
        }
        # evidence under /verif/evidence only when the run is against /repo itself; scratch runs
        # (VERIF_REPO pointing at a worktree, e.g. with a seeded change applied) write next to their build
        evdir = (os.path.join(VERIF, "evidence") if (os.path.realpath(REPO) == "/repo" and not self.replay)
                 else os.path.join(BROOT, "evidence-scratch"))      # --replay runs never overwrite the evidence
        os.makedirs(evdir, exist_ok=True)
        with open(os.path.join(evdir, self.pid + ".json"), "w") as f:
            json.dump(ev, f, indent=1, sort_keys=True)
            f.write("\n")
        shutil.rmtree(self.tmp, ignore_errors=True)
        if viol:
            return 1
        print("OK property=%s tier=%s wall=%.1fs %s" % (self.pid, self.tier, time.time() - self.t0,
              " ".join("%s=%s" % (k, v) for k, v in cov.items() if isinstance(v, (int, bool)))))
        return 0


def _action_at(module, line, c1, c2):
    for root, _, files in os.walk(os.path.join(VERIF, "spec")):
        if module + ".tla" in files:
            try:
                text = open(os.path.join(root, module + ".tla")).read().splitlines()[line - 1][c1 - 1:c2]
            except IndexError:
                return None
            names = re.findall(r"([A-Z]\w*)\s*(?:\(|$)", text)
            return names[-1] if names else None
    return None


def tail(s, n):
    return "\n".join(s.splitlines()[-n:])


def newest_mtime(dirs, exts):
    m = 0.0
    for d in dirs:
        for root, _, files in os.walk(d):
            for f in files:
                if f.endswith(exts):
                    try:
                        t = os.path.getmtime(os.path.join(root, f))
                        if t > m:
                            m = t
                    except OSError:
                        pass
    return m


def load_known():
    """KNOWN_FINDINGS.txt: `known: property=<id> sig=<sig> <what fails>` lines suppress exactly that
    signature; `fixed:` lines are documentation and suppress nothing."""
    d = {}
    p = os.path.join(VERIF, "KNOWN_FINDINGS.txt")
    if os.path.exists(p):
        for line in open(p):
            line = line.strip()
            m = re.match(r"known:\s+property=(\S+)\s+sig=(\S+)\s+(.*)$", line)
            if m:
                d[(m.group(1), m.group(2))] = m.group(3)
    return d


def parse_tla_value(s):
    """Parse the subset of TLA+ value syntax that TLC prints (records, sequences/tuples, sets,
    strings, ints, booleans, functions (a :> b @@ ...)) into python objects."""
    pos = 0
    n = len(s)

    def ws():
        nonlocal pos
        while pos < n and s[pos] in " \t\r\n":
            pos += 1

    def val():
        nonlocal pos
        ws()
        c = s[pos]
        if s.startswith("<<", pos):
            pos += 2
            items = []
            ws()
            if s.startswith(">>", pos):
                pos += 2
                return items
            while True:
                items.append(expr())
                ws()
                if s.startswith(">>", pos):
                    pos += 2
                    return items
                assert s[pos] == ",", (s[pos:pos + 20])
                pos += 1
        if c == "[":
            pos += 1
            d = {}
            ws()
            while True:
                ws()
                m = re.match(r"[A-Za-z_][A-Za-z_0-9]*", s[pos:])
                k = m.group(0)
                pos += len(k)
                ws()
                assert s.startswith("|->", pos), s[pos:pos + 20]
                pos += 3
                d[k] = expr()
                ws()
                if s[pos] == "]":
                    pos += 1
                    return d
                assert s[pos] == ","
                pos += 1
        if c == "{":
            pos += 1
            items = []
            ws()
            if s[pos] == "}":
                pos += 1
                return items
            while True:
                items.append(expr())
                ws()
                if s[pos] == "}":
                    pos += 1
                    return items
                assert s[pos] == ","
                pos += 1
        if c == '"':
            j = pos + 1
            out = []
            while s[j] != '"':
                if s[j] == "\\":
                    j += 1
                    out.append({"n": "\n", "t": "\t"}.get(s[j], s[j]))
                else:
                    out.append(s[j])
                j += 1
            pos = j + 1
            return "".join(out)
        if c == "(":
            pos += 1
            v = expr()
            ws()
            assert s[pos] == ")"
            pos += 1
            return v
        m = re.match(r"-?\d+", s[pos:])
        if m:
            pos += len(m.group(0))
            return int(m.group(0))
        m = re.match(r"[A-Za-z_][A-Za-z_0-9]*", s[pos:])
        w = m.group(0)
        pos += len(w)
        if w == "TRUE":
            return True
        if w == "FALSE":
            return False
        return w  # model value

    def expr():
        nonlocal pos
        v = val()
        ws()
        if s.startswith(":>", pos):
            # function literal  a :> b @@ c :> d
            d = {}
            k = v
            while True:
                assert s.startswith(":>", pos)
                pos += 2
                d[k if isinstance(k, (str, int)) else json.dumps(k)] = val()
                ws()
                if s.startswith("@@", pos):
                    pos += 2
                    k = val()
                    ws()
                else:
                    return d
        return v

    v = expr()
    return v


def b_lines_json(r):
    """Behaviours printed by the spec as  <<"B", "json text">>  (ToJson).  Returns python objects."""
    out = []
    for line in r.printed:
        v = parse_tla_value(line)
        out.append(json.loads(v[1]) if isinstance(v[1], str) else v[1])
    return out


def main_entry(argv):
    import argparse, importlib
    ap = argparse.ArgumentParser()
    ap.add_argument("pid")
    ap.add_argument("--tier", default=os.environ.get("VERIF_TIER", "quick"))
    ap.add_argument("--replay", default=None)
    a = ap.parse_args(argv)
    tier = os.environ.get("VERIF_TIER") or a.tier
    if tier not in ("quick", "thorough"):
        tier = "quick"
    seed = int(os.environ.get("VERIF_SEED", "1") or 1)
    sys.path.insert(0, os.path.join(VERIF, "checks"))
    sys.path.insert(0, os.path.join(VERIF, "tools"))
    ctx = Ctx(a.pid, tier, seed, a.replay)
    try:
        mod = importlib.import_module(a.pid.lower())
        rc = mod.run(ctx)
        if rc is None:
            rc = ctx.finish()
    except Broken as e:
        print("BROKEN-CHECK property=%s: %s" % (a.pid, e), file=sys.stderr)
        shutil.rmtree(ctx.tmp, ignore_errors=True)
        return 2
    except subprocess.TimeoutExpired as e:
        print("BROKEN-CHECK property=%s: timeout %s" % (a.pid, e), file=sys.stderr)
        shutil.rmtree(ctx.tmp, ignore_errors=True)
        return 2
    return rc


def b_json(r):
    """Behaviours printed as <<"B", ToJson(x)>>: returns the decoded JSON values.  A line that TLC's
    periodic progress output cut in two does not decode; such lines are dropped and counted in
    r.dropped (callers may record it)."""
    out = []
    r.dropped = 0
    for line in r.printed:
        try:
            i = line.index(",") + 1
            lit = line[i:].strip()
            if not lit.endswith(">>"):
                raise ValueError("truncated")
            lit = lit[:-2].strip()
            out.append(json.loads(json.loads(lit)))
        except (ValueError, AssertionError):
            r.dropped += 1
    return out


def run_replayer(ctx, exe, env, cases, timeout=900, max_restarts=40, args=(), give_up_ok=False):
    """Write `cases` (list of json-able records, one per line) and run `exe in out start`,
    restarting after a crash.  Returns (outputs by case index, crashes[list of dict])."""
    inp = os.path.join(ctx.tmp, "in-%d.ndjson" % (int(time.time() * 1e6) % 10 ** 10))
    outp = inp.replace("in-", "out-")
    with open(inp, "w") as f:
        for c in cases:
            f.write(json.dumps(c) + "\n")
    open(outp, "w").close()
    start, crashes, logs = 0, [], []
    for attempt in range(max_restarts + 1):
        rc, out = sh([exe, inp, outp, str(start)] + list(args), timeout=timeout, env=env)
        logs.append(out[-6000:])
        if rc == 0 and not any('"crash"' in l for l in open(outp)):
            break
        # find the crash line (last line of the output file) or infer from progress
        last = None
        done = -1
        for line in open(outp):
            try:
                rec = json.loads(line)
            except ValueError:
                continue
            if "crash" in rec:
                last = rec
            elif "beh" in rec:
                done = max(done, rec["beh"])
        if last is None or last.get("beh", -1) < start:
            last = {"crash": "exit-%d" % rc, "beh": max(done + 1, start), "step": -1}
        last["log"] = out[-3000:]
        crashes.append(last)
        start = last["beh"] + 1
        # drop the crash line so that it is not seen again
        lines = [l for l in open(outp) if '"crash"' not in l]
        open(outp, "w").writelines(lines)
        if start >= len(cases):
            break
    else:
        # give_up_ok: the crashes collected so far are reported by the caller, the remaining cases are
        # not executed (ctx.notes records it); otherwise the machinery is considered broken
        if not (give_up_ok and crashes):
            raise Broken("replayer kept crashing (%d restarts); last log:\n%s" % (max_restarts, logs[-1]))
        ctx.notes.append("replay stopped after %d crashes; cases from index %d on were not executed" % (len(crashes), start))
    outs = {}
    for line in open(outp):
        try:
            rec = json.loads(line)
        except ValueError:
            raise Broken("unparseable replayer output: %r" % line[:200])
        if "beh" in rec:
            outs[rec["beh"]] = rec
    return outs, crashes
