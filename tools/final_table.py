#!/usr/bin/env python3
"""Rewrites the table between the FINAL-TABLE markers of DESIGN.md from evidence/*.json and a run_all log."""
import json, re, sys
log = sys.argv[1]
walls = {}
for l in open(log):
    m = re.match(r'(C\d+) rc=(\d+) wall=(\d+)s (\d+) known (\d+) violations', l)
    if m:
        walls[m.group(1)] = (int(m.group(3)), int(m.group(4)), int(m.group(2)))
man = json.load(open('/verif/MANIFEST.json'))
rows = ["| id | level | tier | coverage of that run (from the evidence file) | wall | KNOWN-FINDING lines |", "|---|---|---|---|---|---|"]
for c in man['checks']:
    i = c['property_id']
    e = json.load(open('/verif/evidence/%s.json' % i)); cov = e['coverage']; lvl = e['level']
    if lvl == 'model_checking':
        key = "%s states / %s transitions / %s traces" % (cov.get('states'), cov.get('transitions'), cov.get('traces_validated_against_impl'))
    elif lvl == 'translation_validation':
        key = "%s programs / %s comparisons" % (cov.get('programs'), cov.get('disagreements_checked'))
    else:
        key = "%s evaluations / %s distinct non-trivial" % (cov.get('evaluations'), cov.get('distinct_nontrivial'))
    w = walls.get(i, (int(e['wall_s']), len(cov.get('known_findings_reobserved', [])), 0))
    rows.append("| %s | %s | %s | %s | %d s | %d |" % (i, lvl, e['tier'], key, w[0], w[1]))
p = '/verif/DESIGN.md'
s = open(p).read()
a = s.index('<!-- FINAL-TABLE-BEGIN -->') + len('<!-- FINAL-TABLE-BEGIN -->\n')
b = s.index('<!-- FINAL-TABLE-END -->')
s = s[:a] + "\n".join(rows) + "\n" + s[b:]
open(p, 'w').write(s)
print("total wall %d s over %d checks" % (sum(w[0] for w in walls.values()), len(walls)))
