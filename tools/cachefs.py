"""cachefs -- strace recording, projection onto the CacheFS call classes, crash / stop imposition
(properties C08, C09).  Nothing in here decides what is right: it records, projects and compares.

Vocabulary
  call      one syscall of a recorded process (parsed strace line)
  event     projection of a call onto a CacheFS call class: dict with
              e   Mkdir | Stat | OpenW | Write | CloseW | Fsync | FsyncDir | Rename | Read | Unlink |
                  Spawn | Wait | ChildOpenW | ChildUnlink | Other
              n   spec name of the file: final id ("K.bin") or temp name ("K.bin~<16 hex>")
              f   final id the name belongs to, t  TRUE for a temp name, d  directory role (R C K V O ?)
              r   result (Stat: exists; Mkdir: created)      s/sf/st  rename source
              k   index of the call among the building process's calls of the INJECT set (1-based),
              sc, j   the syscall name and its per-syscall ordinal  (strace's `when=` counts per syscall)
  kill point  a call of the INJECT set made by the building process: killed at its entry with
              strace -e inject=<sc>:signal=SIGKILL:when=<j>
  stop point  same, with signal=SIGSTOP: the process stops right AFTER that call returns
"""
import json, os, re, signal, subprocess, time, hashlib

# the file-system operations the property quantifies over (open/write/close/rename/fsync/mkdir ...)
INJECT = ["open", "openat", "creat", "write", "pwrite64", "writev", "close", "fsync", "fdatasync",
          "rename", "renameat", "renameat2", "mkdir", "mkdirat", "unlink", "unlinkat", "rmdir",
          "ftruncate", "truncate"]
RECORD = INJECT + ["read", "pread64", "stat", "lstat", "newfstatat", "statx", "access", "faccessat",
                   "faccessat2", "clone", "clone3", "fork", "vfork", "wait4", "execve", "link", "linkat",
                   "symlink", "symlinkat"]

_line = re.compile(r"^(?:(\d+)\s+)?(\w+)\((.*)\)\s+= (-?\d+|\?)(?:\s+(E\w+)\s*\(.*\))?(?:\s+\(.*\))?\s*$")
_unfinished = re.compile(r"^(?:(\d+)\s+)?(\w+)\((.*) <unfinished \.\.\.>\s*$")
_resumed = re.compile(r"^(?:(\d+)\s+)?<\.\.\. (\w+) resumed>(.*)$")
_str = re.compile(r'"((?:[^"\\]|\\.)*)"')


def parse_strace(path):
    """-> (mainpid, calls, endings) ; calls = list of dict(pid, sc, args, ret, err) in log order (a call
    that was unfinished/resumed appears where it was resumed; a call cut by a kill appears with ret '?')."""
    calls, pending, endings = [], {}, {}
    mainpid = None
    for raw in open(path, errors="replace"):
        line = raw.rstrip("\n")
        m = re.match(r"^(?:(\d+)\s+)?\+\+\+ (exited with (\d+)|killed by (\w+)).*\+\+\+", line)
        if m:
            endings[m.group(1) or "0"] = ("exit", int(m.group(3))) if m.group(3) is not None else ("kill", m.group(4))
            continue
        if re.match(r"^(?:\d+\s+)?---", line):
            continue
        m = _unfinished.match(line)
        if m:
            pid = m.group(1) or "0"
            if mainpid is None:
                mainpid = pid
            pending[pid] = (m.group(2), m.group(3))
            continue
        m = _resumed.match(line)
        if m:
            pid = m.group(1) or "0"
            sc, head = pending.pop(pid, (m.group(2), ""))
            line = "%s%s(%s%s" % ((m.group(1) + " ") if m.group(1) else "", sc, head, m.group(3))
        m = _line.match(line)
        if not m:
            continue
        pid = m.group(1) or "0"
        if mainpid is None:
            mainpid = pid
        calls.append({"pid": pid, "sc": m.group(2), "args": m.group(3), "ret": m.group(4), "err": m.group(5)})
    # calls that never returned (killed at entry)
    for pid, (sc, head) in pending.items():
        calls.append({"pid": pid, "sc": sc, "args": head, "ret": "?", "err": None})
    return mainpid, calls, endings


def _unescape(s):
    try:
        return bytes(s, "latin-1").decode("unicode_escape")
    except Exception:
        return s


def _norm(p):
    return re.sub(r"/+", "/", p)


class Namer:
    """maps paths under the cache root onto spec names"""

    def __init__(self, root, dirmap=None):
        self.root = _norm(os.path.abspath(root)).rstrip("/")
        self.dirmap = dict(dirmap or {})   # hash directory name -> K | V | O
        self.tempmap = {}                  # path that was renamed away -> path it was renamed to

    def learn(self, paths):
        for p in paths:
            rel = self.rel(p)
            if rel is None:
                continue
            parts = rel.split("/")
            if len(parts) == 3 and parts[0] == "cache":
                base = re.sub(r"^[0-9a-f]{16}\.", "", parts[2])
                if base == "findCompilerVendor.cpp":
                    self.dirmap[parts[1]] = "V"
                elif base == "compilerSupportsOpenMP.cpp":
                    self.dirmap[parts[1]] = "O"
                elif base.endswith(".source.cpp") or base.endswith("raw_source.cpp") or base == "build.json":
                    self.dirmap.setdefault(parts[1], "K")

    def rel(self, path):
        p = _norm(path).rstrip("/")
        if p == self.root:
            return ""
        if p.startswith(self.root + "/"):
            return p[len(self.root) + 1:]
        return None

    def learn_renames(self, mainpid, calls):
        """a temp name is, first of all, a name that the building process renames away (whatever it looks
        like); the `<16 hex>.` prefix of io::getStagedTempFilename is only the fallback for names whose
        rename was never reached (killed runs)"""
        for c in calls:
            if c["pid"] == mainpid and c["sc"] in ("rename", "renameat", "renameat2") and not c["ret"].startswith("-"):
                strs = [_unescape(x) for x in _str.findall(c["args"])]
                if len(strs) >= 2 and self.rel(strs[0]) is not None and self.rel(strs[1]) is not None:
                    self.tempmap[_norm(strs[0])] = _norm(strs[1])

    def classify(self, path):
        """-> None (outside the cache / not a cache entry) | ('dir', role) | ('file', n, f, t, d)"""
        tgt = self.tempmap.get(_norm(path))
        if tgt is not None and tgt not in self.tempmap:
            cl = self.classify(tgt)
            if cl and cl[0] == "file" and not cl[3]:
                tid = hashlib.md5(_norm(path).encode()).hexdigest()[:8]
                m = re.match(r"^([0-9a-f]{16})\.", os.path.basename(_norm(path)))
                return ("file", cl[2] + "~" + (m.group(1) if m else tid), cl[2], True, cl[4])
        rel = self.rel(path)
        if rel is None:
            return None
        if rel == "":
            return ("dir", "R")
        parts = rel.split("/")
        if parts[0] != "cache":
            return None                      # <root>/config.json etc.: not a cache entry
        if len(parts) == 1:
            return ("dir", "C")
        d = self.dirmap.get(parts[1], "?")
        if len(parts) == 2:
            return ("dir", d)
        base = "/".join(parts[2:])
        t, tid = False, ""
        m = re.match(r"^([0-9a-f]{16})\.(.+)$", base)
        if m:
            t, tid, base = True, m.group(1), m.group(2)
        f = None
        if d == "V":
            f = {"findCompilerVendor.cpp": "V.src", "binary": "V.bin", "build.log": "V.log", "output": "V.out"}.get(base)
        elif d == "O":
            f = {"compilerSupportsOpenMP.cpp": "O.src", "binary": "O.bin", "output": "O.out"}.get(base)
        elif d == "K":
            if base.endswith(".raw_source.cpp") or base.endswith(".raw_source.c"):
                f = "K.raw"
            elif base.endswith(".source.cpp"):
                f = "K.src"
            elif base == "string_source.cpp":
                f = "K.strsrc"
            elif base == "build.json":
                f = "K.build"
            elif base == "binary":
                f = "K.bin"
        if f is None:
            f = "%s.?%s" % (d, base)
        return ("file", f + ("~" + tid if t else ""), f, t, d)


def _flags(args):
    m = re.search(r"\b(O_[A-Z_|]+)", args)
    return set(m.group(1).split("|")) if m else set()


def project(mainpid, calls, namer, inject=INJECT):
    """-> (events, points): events of the building process (+ mutating calls of its children);
    points = every call of the INJECT set made by the building process, in order:
             dict(k, sc, j, ev=index of the event it produced or None, cache=bool touches the cache)"""
    namer.learn(_unescape(s) for c in calls for s in _str.findall(c["args"])[:2])
    namer.learn_renames(mainpid, calls)
    events, points = [], []
    fds = {}                  # fd -> dict(kind 'w'|'r'|'d', name tuple, used)
    ordinal = {}
    k = 0
    injset = set(inject)

    allord = {}               # per-syscall ordinal over ALL calls of the building process (stop points)
    cur = {}

    def emit(ev, point):
        ev.setdefault("n", ""); ev.setdefault("f", ""); ev.setdefault("t", False); ev.setdefault("d", "?")
        ev.setdefault("r", True); ev.setdefault("s", ""); ev.setdefault("st", False); ev.setdefault("env", False)
        if point is not None:
            ev["k"], ev["sc"], ev["j"] = point["k"], point["sc"], point["j"]
            if point["ev"] is None:
                point["ev"] = len(events)
        elif cur:
            ev["sc"], ev["j"] = cur["sc"], cur["j"]      # not a kill point, but a possible stop point
        events.append(ev)

    for c in calls:
        sc, args, ret = c["sc"], c["args"], c["ret"]
        ok = ret not in ("?",) and not ret.startswith("-")
        strs = [_unescape(s) for s in _str.findall(args)]
        if c["pid"] != mainpid:
            cur = {}
            # children (compiler, shell): only what they create or remove inside the cache matters
            if sc in ("open", "openat", "creat") and ok and strs:
                fl = _flags(args)
                if sc == "creat" or fl & {"O_WRONLY", "O_RDWR", "O_CREAT", "O_TRUNC"}:
                    cl = namer.classify(strs[0])
                    if cl and cl[0] == "file":
                        emit({"e": "ChildOpenW", "n": cl[1], "f": cl[2], "t": cl[3], "d": cl[4]}, None)
            elif sc in ("unlink", "unlinkat", "rename", "renameat", "renameat2") and ok and strs:
                cl = namer.classify(strs[-1])
                if cl and cl[0] == "file":
                    emit({"e": "ChildUnlink" if sc.startswith("unlink") else "Other", "n": cl[1], "f": cl[2],
                          "t": cl[3], "d": cl[4]}, None)
            continue
        point = None
        allord[sc] = allord.get(sc, 0) + 1
        cur = {"sc": sc, "j": allord[sc]}
        if sc in injset:
            k += 1
            ordinal[sc] = ordinal.get(sc, 0) + 1
            point = {"k": k, "sc": sc, "j": ordinal[sc], "ev": None, "cache": False}
            points.append(point)
        killed_here = (ret == "?")
        if sc in ("open", "openat", "creat"):
            if not strs:
                continue
            cl = namer.classify(strs[0])
            if cl is None:
                continue
            if point:
                point["cache"] = True
            fl = _flags(args)
            writing = sc == "creat" or bool(fl & {"O_WRONLY", "O_RDWR", "O_CREAT", "O_TRUNC", "O_APPEND"})
            if cl[0] == "dir":
                if ok:
                    fds[ret] = {"kind": "d", "cl": cl, "used": False}
                continue
            if writing:
                if ok or killed_here:
                    emit({"e": "OpenW", "n": cl[1], "f": cl[2], "t": cl[3], "d": cl[4], "r": ok}, point)
                    if ok:
                        fds[ret] = {"kind": "w", "cl": cl, "used": True}
                else:
                    emit({"e": "Other", "n": cl[1], "f": cl[2], "t": cl[3], "d": cl[4], "r": False}, point)
            else:
                if ok:
                    fds[ret] = {"kind": "r", "cl": cl, "used": False, "point": point}
                elif killed_here:
                    emit({"e": "Stat", "n": cl[1], "f": cl[2], "t": cl[3], "d": cl[4], "r": False}, point)
                else:
                    emit({"e": "Stat", "n": cl[1], "f": cl[2], "t": cl[3], "d": cl[4], "r": False}, point)
        elif sc in ("read", "pread64"):
            fd = args.split(",")[0].strip()
            h = fds.get(fd)
            if h and h["kind"] == "r" and not h["used"]:
                h["used"] = True
                cl = h["cl"]
                emit({"e": "Read", "n": cl[1], "f": cl[2], "t": cl[3], "d": cl[4]}, h.get("point"))
        elif sc in ("write", "pwrite64", "writev"):
            fd = args.split(",")[0].strip()
            h = fds.get(fd)
            if h:
                if point:
                    point["cache"] = True
                cl = h["cl"]
                if h["kind"] == "w":
                    emit({"e": "Write", "n": cl[1], "f": cl[2], "t": cl[3], "d": cl[4]}, point)
                else:
                    emit({"e": "Other", "n": cl[1] if cl[0] == "file" else "", "d": cl[-1]}, point)
        elif sc in ("fsync", "fdatasync"):
            fd = args.split(",")[0].strip()
            h = fds.get(fd)
            if h:
                if point:
                    point["cache"] = True
                h["used"] = True
                cl = h["cl"]
                if cl[0] == "dir":
                    emit({"e": "FsyncDir", "n": "", "d": cl[1]}, point)
                else:
                    emit({"e": "Fsync", "n": cl[1], "f": cl[2], "t": cl[3], "d": cl[4]}, point)
        elif sc == "close":
            fd = args.split(",")[0].strip().rstrip(")")
            h = fds.pop(fd, None) if (ok or killed_here) else None
            if h:
                if point:
                    point["cache"] = True
                cl = h["cl"]
                if h["kind"] == "w":
                    emit({"e": "CloseW", "n": cl[1], "f": cl[2], "t": cl[3], "d": cl[4]}, point)
                elif h["kind"] == "r" and not h["used"]:
                    # opened and closed without reading: io::exists
                    emit({"e": "Stat", "n": cl[1], "f": cl[2], "t": cl[3], "d": cl[4], "r": True}, h.get("point"))
                if killed_here:
                    fds[fd] = h
        elif sc in ("stat", "lstat", "newfstatat", "statx", "access", "faccessat", "faccessat2"):
            if not strs or strs[0] == "":
                continue                      # fstat on a descriptor
            cl = namer.classify(strs[0])
            if cl is None or cl[0] == "dir":
                continue                      # sys::mkpath probing directories
            if any(h["kind"] == "r" and h["cl"][1] == cl[1] for h in fds.values()):
                continue                      # size query of a file that is open for reading (io::c_read)
            emit({"e": "Stat", "n": cl[1], "f": cl[2], "t": cl[3], "d": cl[4], "r": ok}, None)
        elif sc in ("mkdir", "mkdirat"):
            if not strs:
                continue
            cl = namer.classify(strs[0])
            if cl is None:
                continue
            point["cache"] = True
            if cl[0] == "dir":
                emit({"e": "Mkdir", "n": "", "d": cl[1], "r": ok}, point)
            else:
                emit({"e": "Other", "n": cl[1], "d": cl[4]}, point)
        elif sc in ("rename", "renameat", "renameat2"):
            if len(strs) < 2:
                continue
            a, b = namer.classify(strs[0]), namer.classify(strs[1])
            if a is None and b is None:
                continue
            point["cache"] = True
            if a and b and a[0] == "file" and b[0] == "file" and (ok or killed_here):
                emit({"e": "Rename", "n": b[1], "f": b[2], "t": b[3], "d": b[4], "s": a[1], "sf": a[2], "st": a[3]}, point)
            else:
                emit({"e": "Other", "n": (b or a)[1] if (b or a)[0] == "file" else "", "d": "?"}, point)
        elif sc in ("unlink", "unlinkat", "rmdir"):
            if not strs:
                continue
            cl = namer.classify(strs[0])
            if cl is None:
                continue
            point["cache"] = True
            if cl[0] == "file" and (ok or killed_here):
                emit({"e": "Unlink", "n": cl[1], "f": cl[2], "t": cl[3], "d": cl[4]}, point)
            elif ok or killed_here:
                emit({"e": "Other", "n": "", "d": cl[1]}, point)
        elif sc in ("truncate", "ftruncate", "link", "linkat", "symlink", "symlinkat"):
            tgt = None
            if sc == "ftruncate":
                h = fds.get(args.split(",")[0].strip())
                tgt = h["cl"] if h else None
            else:
                for s in strs:
                    tgt = tgt or namer.classify(s)
            if tgt:
                if point:
                    point["cache"] = True
                emit({"e": "Other", "n": tgt[1] if tgt[0] == "file" else "", "d": tgt[-1]}, point)
        elif sc in ("clone", "clone3", "fork", "vfork"):
            if ok and ret != "0" and "CLONE_THREAD" not in args:      # a process, not an OpenMP thread
                emit({"e": "Spawn"}, None)
        elif sc == "wait4":
            if ok and ret != "0":
                emit({"e": "Wait"}, None)
    return events, points


def sig(ev):
    """what kind of step an event is (for choosing representatives and comparing with the model)"""
    return (ev["e"], ev["f"] if ev["e"] not in ("Mkdir", "FsyncDir") else ev["d"], bool(ev["t"]))


def collapse_writes(seq):
    """consecutive Write events on the same name are one model step (the chunk count is stdio's business)"""
    out = []
    for s in seq:
        if out and s[0] == "Write" and out[-1] == s:
            continue
        out.append(s)
    return out


# --------------------------------------------------------------------------- running processes

def strace_cmd(log, argv, trace=RECORD, follow=True, inject=None, strsize=400):
    cmd = ["strace", "-o", log, "-s", str(strsize), "-e", "trace=" + ",".join(trace)]
    if follow:
        cmd.insert(1, "-f")
    if inject:
        cmd += ["-e", "inject=%s:signal=%s:when=%d" % (inject[0], inject[1], inject[2])]
    return cmd + list(argv)


def run(cmd, env, timeout, **kw):
    """-> (rc, stdout+stderr text); rc None on timeout (process group killed)"""
    e = dict(os.environ)
    e.update(env)
    p = subprocess.Popen(cmd, env=e, stdout=subprocess.PIPE, stderr=subprocess.STDOUT, text=True,
                         errors="replace", start_new_session=True, **kw)
    try:
        out, _ = p.communicate(timeout=timeout)
        return p.returncode, out
    except subprocess.TimeoutExpired:
        try:
            os.killpg(p.pid, signal.SIGKILL)
        except OSError:
            pass
        out, _ = p.communicate()
        return None, out


def result_of(out):
    """the harness's RESULT line -> (ok, value, expect) or None"""
    m = re.search(r"RESULT ok=(\d) value=(-?\d+) expect=(-?\d+)", out or "")
    return (m.group(1) == "1", int(m.group(2)), int(m.group(3))) if m else None


def tracee_pid(strace_pid, timeout=20.0):
    """the building process = the only child of strace"""
    t = time.time()
    while time.time() - t < timeout:
        try:
            kids = open("/proc/%d/task/%d/children" % (strace_pid, strace_pid)).read().split()
            if kids:
                return int(kids[0])
        except OSError:
            return None
        time.sleep(0.01)
    return None


def wait_stopped(proc, log, timeout):
    """wait until strace reports the group-stop of the tracee ('--- stopped by SIGSTOP ---' in its log)
    or strace itself ends.  -> 'stopped' | 'ended' | 'timeout'.  (A liveness wait, not an ordering
    assumption: the schedule is imposed by the stop itself.)"""
    t = time.time()
    while time.time() - t < timeout:
        if proc.poll() is not None:
            return "ended"
        try:
            with open(log, errors="replace") as f:
                if "--- stopped by SIGSTOP ---" in f.read():
                    return "stopped"
        except OSError:
            pass
        time.sleep(0.02)
    return "timeout"


# --------------------------------------------------------------------------- cache directory projection

def _canon(fid, data, root):
    """bytes of a cache file made comparable between cache directories / runs"""
    if fid == "K.build":
        try:
            j = json.loads(data.decode("utf-8", "replace"))
        except ValueError:
            return None                       # not (yet) a JSON document
        if isinstance(j, dict) and isinstance(j.get("build"), dict):
            j["build"].pop("date", None)
            j["build"].pop("human_date", None)
        try:
            j["kernel"]["props"].pop("verbose", None)
        except (KeyError, TypeError, AttributeError):
            pass
        return json.dumps(j, sort_keys=True).replace(_norm(root).rstrip("/"), "<ROOT>").encode()
    return data.replace(_norm(os.path.abspath(root)).rstrip("/").encode(), b"<ROOT>")


def snapshot(root, namer):
    """-> dict name -> canonical bytes (None if undecodable) for every regular file under <root>/cache"""
    snap = {}
    base = os.path.join(root, "cache")
    for dp, _, files in os.walk(base):
        for fn in files:
            p = os.path.join(dp, fn)
            cl = namer.classify(p)
            if not cl or cl[0] != "file":
                continue
            try:
                data = open(p, "rb").read()
            except OSError:
                continue
            snap[cl[1]] = (cl[2], cl[3], _canon(cl[2], data, root), len(data))
    return snap


def project_dir(root, namer, reference):
    """spec state of every FINAL name: absent (not listed) | ok (bytes equal the completed reference) |
    partial (a proper prefix, possibly empty, or an undecodable document) | bad (anything else).
    -> (state dict final id -> state, litter = number of temp files)"""
    state, litter = {}, 0
    for n, (fid, t, data, size) in snapshot(root, namer).items():
        if t:
            litter += 1
            continue
        ref = reference.get(fid)
        if ref is None:
            # a name that a completed build does not leave behind: nobody probes it (left-over temp file
            # with an unusual name); counted, not judged
            litter += 1
        elif data is not None and data == ref:
            state[fid] = "ok"
        elif data is None or size == 0 or (fid != "K.build" and ref.startswith(data)):
            state[fid] = "partial"
        else:
            state[fid] = "bad"
    return state, litter


def reference_of(root, namer):
    return {fid: data for n, (fid, t, data, size) in snapshot(root, namer).items() if not t}


def tail(s, n=12):
    return "\n".join((s or "").splitlines()[-n:])


# --------------------------------------------------------------------------- shared steps of the C08 / C09 checks
ALL_VARIANTS = [("SS", "Serial", "string"), ("SF", "Serial", "file"), ("OS", "OpenMP", "string"), ("OF", "OpenMP", "file")]
# development knob (binding demonstrations on a loaded machine): VERIF_VARIANTS=SS,OF restricts the real runs
VARIANTS = [v for v in ALL_VARIANTS
            if not os.environ.get("VERIF_VARIANTS") or v[0] in os.environ["VERIF_VARIANTS"].split(",")]
KERNEL_A = 3                     # the kernel computes out[i] = a*i + 7
ACTIONS = ["Start", "Mkdir", "Stat", "OpenW", "WriteChunk", "CloseW", "Fsync", "RenameTmp", "SpawnCompiler",
           "WaitCompiler", "ExecSpawn", "ExecWait", "ReadFile", "Dlopen", "Run"]


def harness_argv(exe, mode, kind, verbose=False):
    import vlib
    a = [exe, mode, kind, os.path.join(vlib.VERIF, "harness", "cache_fill.okl"), str(KERNEL_A)]
    return a + (["verbose"] if verbose else [])


def occa_env(ctx, lib, cache):
    env = ctx.occa_env(lib)
    env["OCCA_CACHE_DIR"] = cache
    env.pop("OCCA_VERBOSE", None)
    return env


def model_histories(ctx, cfg="mc/KernelCache_gen.cfg"):
    """TLC-generated behaviours of a complete build: variant -> list of model events"""
    import vlib
    g = ctx.tlc("mc/MC_KernelCache.tla", cfg, workers=1, timeout=900)
    if g.rc != 0 or not g.printed:
        raise vlib.Broken("behaviour generation failed (%s):\n%s" % (cfg, vlib.tail(g.out, 40)))
    out = {}
    for b in vlib.b_json(g):
        out.setdefault(b["variant"], []).append(b["hist"])
    return out


def model_sig(m):
    e = m["e"]
    if e in ("Spawn", "Wait"):
        return (e, "", False, True)
    return (e, m["f"], bool(m["t"]), bool(m["r"]) if e == "Stat" else True)


def real_sig(ev):
    e = ev["e"]
    if e in ("Spawn", "Wait"):
        return (e, "", False, True)
    return (e, ev["d"] if e in ("Mkdir", "FsyncDir") else ev["f"], bool(ev["t"]), bool(ev["r"]) if e == "Stat" else True)


def align(events, hist):
    """walk the real events of the building process and the model's events of one process together.
    -> (aligned, where, amap): amap[i] = index of the model event that real event i corresponds to
    (consecutive writes on one name are one model step); where = first divergence or None"""
    amap, j, prev = {}, -1, None
    real = [(i, e) for i, e in enumerate(events) if not e["e"].startswith("Child")]
    for i, e in real:
        s = real_sig(e)
        if s[0] == "Write" and prev == s:
            amap[i] = j
            continue
        j += 1
        prev = s
        if j >= len(hist) or model_sig(hist[j]) != s:
            return False, {"real_index": i, "real": list(s), "model": list(model_sig(hist[j])) if j < len(hist) else None}, amap
        amap[i] = j
    if j + 1 != len(hist):
        return False, {"real_index": len(events), "real": None, "model": list(model_sig(hist[j + 1]))}, amap
    return True, None, amap


def write_trace(path, runs):
    """runs: list of (env flag, events[, followed]) -> ndjson for CacheFSTrace; returns the starting line of
    each run.  followed = children were recorded too (strace -f)."""
    starts, n = [], 0
    keys = ("e", "n", "f", "t", "d", "r", "s", "st", "env", "fo")
    with open(path, "w") as f:
        for run_ in runs:
            envflag, evs = run_[0], run_[1]
            fo = bool(run_[2]) if len(run_) > 2 else False
            starts.append(n + 1)
            f.write(json.dumps({"e": "Reset", "n": "", "f": "", "t": False, "d": "?", "r": True, "s": "", "st": False,
                                "env": bool(envflag), "fo": fo}) + "\n")
            n += 1
            for e in evs:
                d = {k: e.get(k) for k in keys}
                d["fo"] = fo
                f.write(json.dumps(d) + "\n")
                n += 1
    return starts


def validate_traces(ctx, runs, tag):
    """one TLC run over the concatenated traces. -> None when accepted, else dict(run index, event index,
    event, reason).  Tool failures raise Broken."""
    import vlib
    path = os.path.join(ctx.tmp, "trace-%s.ndjson" % tag)
    starts = write_trace(path, runs)
    total = sum(len(r_[1]) + 1 for r_ in runs)
    r = ctx.tlc("trace/CacheFSTrace.tla", "trace/CacheFSTrace.cfg", workers=1, env={"TRACE": path},
                timeout=1200, count=False, extra=["-nowarning"])
    if r.rc == 0:
        if "REJECTED-AFTER" in r.out:
            raise vlib.Broken("trace validation inconsistent:\n" + vlib.tail(r.out, 20))
        return None
    reason, consumed = None, None
    m = re.search(r"Invariant (\w+) is violated", r.out)
    if m:
        reason = m.group(1)
        ls = re.findall(r"^/\\ l = (\d+)", r.out, re.M)
        if ls:
            consumed = int(ls[-1]) - 1          # the offending event is the last consumed one
            bad_line = consumed
    else:
        m = re.search(r'"REJECTED-AFTER",\s*(\d+),\s*"OF",\s*(\d+)', r.out)
        if m:
            reason = "no-matching-action"
            consumed = int(m.group(1))
            bad_line = consumed + 1             # the event that could not be consumed
    if reason is None:
        raise vlib.Broken("trace validation failed without a verdict (rc=%s):\n%s" % (r.rc, vlib.tail(r.out, 40)))
    ri = max(i for i, s in enumerate(starts) if s <= bad_line)
    ei = bad_line - starts[ri] - 1              # index into runs[ri] events
    ev = runs[ri][1][ei] if 0 <= ei < len(runs[ri][1]) else None
    return {"run": ri, "event_index": ei, "event": ev, "reason": reason, "lines": total}


def record(ctx, exe, env, mode, kind, log, verbose=False, follow=True, timeout=300):
    """run the harness under strace (recording) -> (rc, out, mainpid, calls, endings)"""
    rc, out = run(strace_cmd(log, harness_argv(exe, mode, kind, verbose), follow=follow), env, timeout)
    if not os.path.exists(log):
        return rc, out, None, [], {}
    mp, calls, ends = parse_strace(log)
    return rc, out, mp, calls, ends


def action_coverage(ctx, cfg, workers=2, timeout=1500):
    """TLC's -coverage cost model cannot be built for KernelCache (it inlines the nested script
    definitions into every action and does not terminate in reasonable time), so vacuity is checked on
    the dumped state graph of a small configuration: every edge carries the name of the action that
    produced it.  -> TlcResult with .coverage[action] = (edges, edges)"""
    dump = os.path.join(ctx.tmp, "dump-%s" % os.path.basename(cfg).replace(".cfg", ""))
    r = ctx.tlc("mc/MC_KernelCache.tla", cfg, workers=workers, timeout=timeout, count=False,
                extra=["-dump", "dot,actionlabels", dump])
    counts = {}
    try:
        with open(dump + ".dot", errors="replace") as f:
            for line in f:
                if "->" in line:
                    m = re.search(r'label="(\w+)', line)
                    if m:
                        counts[m.group(1)] = counts.get(m.group(1), 0) + 1
        os.unlink(dump + ".dot")
    except OSError:
        pass
    r.coverage = {a: (n, n) for a, n in counts.items()}
    return r


def error_text(out, n=6):
    """the message part of an OCCA error report (not its stack trace)"""
    lines = (out or "").splitlines()
    keep = [l.strip() for l in lines if re.search(r"Message|Error|OCCA-EXCEPTION|STD-EXCEPTION|Function|File ", l)]
    return " | ".join((keep or lines)[:n])[:600]


def validate_many(ctx, traces, tag, what, chunk=40, max_rejections=3):
    """trace validation of many recorded runs, batched (one JVM per `chunk` runs).  A rejected run is
    re-validated alone before it is reported (ctx.mismatch); validation then continues behind it.  After
    `max_rejections` reported rejections the remaining runs are left unvalidated (mismatches are deduplicated
    by signature anyway).  -> number of runs accepted"""
    accepted, rejections, i = 0, 0, 0
    while i < len(traces):
        part = traces[i:i + chunk]
        rej = validate_traces(ctx, part, "%s%d" % (tag, i))
        if rej is None:
            accepted += len(part)
            i += len(part)
            continue
        accepted += rej["run"]                       # the runs in front of the rejected one were consumed
        bad = part[rej["run"]]
        again = validate_traces(ctx, [bad], "%s%d-again" % (tag, i))
        if again is not None:
            ev = again["event"] or {}
            ctx.mismatch("trace:%s:%s:%s:%s" % (again["reason"], ev.get("e"), ev.get("f") or ev.get("d"),
                                                 "tmp" if ev.get("t") else "final"),
                         "%s is rejected by CacheFSTrace at event %d %s: %s"
                         % (what(i + rej["run"]), again["event_index"], {k: ev.get(k) for k in ("e", "n", "s")}, again["reason"]),
                         [{"rejected": again["reason"], "event_index": again["event_index"], "run": what(i + rej["run"])}]
                         + [dict({k: e.get(k) for k in ("e", "n", "f", "t", "d", "r", "s", "st")},
                                 env=bool(bad[0]), fo=bool(bad[2]) if len(bad) > 2 else False) for e in bad[1]])
            rejections += 1
            if rejections >= max_rejections:
                ctx.notes.append("trace validation stopped after %d rejections; %d runs left unvalidated"
                                 % (rejections, len(traces) - i - rej["run"] - 1))
                break
        else:
            accepted += 1                            # not repeated: not reported
        i += rej["run"] + 1
    return accepted


def load_replay(path):
    return [json.loads(l) for l in open(path) if l.strip()]


def replay_trace(ctx, recs):
    """re-validate a stored rejected trace (records after the header are the events)"""
    evs = recs[1:]
    for e in evs:
        for k, dflt in (("f", ""), ("d", "?"), ("st", False), ("s", ""), ("r", True), ("t", False), ("n", "")):
            if e.get(k) is None:
                e[k] = dflt
    env = bool(evs and evs[0].get("env"))
    fo = bool(evs and evs[0].get("fo"))
    return validate_many(ctx, [(env, evs, fo)], "replay", lambda i: "the stored trace")
