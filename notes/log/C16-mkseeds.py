# dev tool: writes spec/mc/MC_OklMutate.tla from space-separated seed kernels (NL = newline token)
seeds = [
 ("tile", "@kernel void k ( const int N , float * a ) { for ( int i = 0 ; i < N ; ++ i ; @tile ( 16 , @outer , @inner ) ) { a [ i ] = i ; } }"),
 ("dim", "@kernel void k ( const int N , @dim ( N , 4 ) @dimOrder ( 1 , 0 ) float * a ) { for ( int o = 0 ; o < N ; ++ o ; @outer ( 0 ) ) { for ( int i = 0 ; i < 4 ; ++ i ; @inner ( 0 ) ) { a ( o , i ) = 1.0f ; } } }"),
 ("shared", "@kernel void k ( const int N , @restrict float * a , const float * b ) { @max_inner_dims ( 4 ) for ( int o = 0 ; o < N ; ++ o ; @outer ) { @shared float s [ 4 ] ; @exclusive int x ; for ( int i = 0 ; i < 4 ; ++ i ; @inner ) { x = i ; s [ i ] = b [ o * 4 + i ] ; } @barrier ; for ( int i = 0 ; i < 4 ; ++ i ; @inner ) { @atomic a [ o ] += s [ x ] ; } } }"),
 ("cpp", "#define M 4 NL typedef struct { float x ; int y ; } P ; float f ( const float x ) { return x * 2.0f + M ; } @kernel void k ( const int N , float * a , const P * p ) { for ( int o = 0 ; o < N ; o += M ; @outer ) { for ( int i = o ; i < o + M ; ++ i ; @inner ) { if ( i < N && p [ i ] . y != 0 ) { a [ i ] = f ( p [ i ] . x ) ; } else { a [ i ] = ( i % 2 == 0 ) ? 1.0f : -1.0f ; } } } }"),
 ("flow", "@kernel void k ( const int N , int * a ) { for ( int o = 0 ; o < N ; ++ o ; @outer ) { for ( int i = 0 ; i < 4 ; ++ i ; @inner ) { int j = 0 ; while ( j < 3 ) { if ( j == 1 ) { break ; } ++ j ; } for ( int m = 0 ; m < 2 ; ++ m ) { if ( m ) continue ; switch ( i ) { case 0 : a [ o ] = 'a' ; break ; default : a [ o ] = sizeof ( i ) ; } } } } }"),
 ("variadic", '#define FIRST( x , ... ) x NL #define PICK( a , b , ... ) b NL #define FWD( ... ) PICK( __VA_ARGS__ ) NL #define ADD( a , b ) ( ( a ) + ( b ) ) NL #define TWICE( f , v ) f( f( v , 1 ) , 1 ) NL @kernel void k ( const int N , float * a ) { for ( int o = 0 ; o < N ; ++ o ; @outer ) { for ( int i = 0 ; i < 4 ; ++ i ; @inner ) { a [ FIRST( i ) ] = PICK( 1 , 2 ) ; a [ FIRST( i , o ) ] = PICK( 1 , 2 , 3 ) + FWD( 4 , 5 , 6 ) ; a [ o ] = ADD( FIRST( 1 , 2 , 3 ) , TWICE( ADD , i ) ) ; } } }'),
 ("cond", '#define A 1 NL #define B A NL #define C ( B + 1 ) NL #if C > 1 NL #define D 4 NL #elif C == 1 NL #define D 2 NL #else NL #define D 1 NL #endif NL #undef A NL #define A 2 NL #ifdef D NL #ifndef E NL #define E D NL #endif NL #endif NL #if defined ( E ) && ! defined ( F ) NL #define F( x ) ( x * E ) NL #endif NL @kernel void k ( const int N , float * a ) { for ( int o = 0 ; o < N ; ++ o ; @outer ) { for ( int i = 0 ; i < E ; ++ i ; @inner ) { a [ i ] = A + B + C + F( o ) ; } } }'),
 ("stmts", '#pragma once NL enum E { E0 , E1 = 2 } ; typedef struct { int a ; float b ; } S ; void helper ( float * p , const int n ) { if ( n < 0 ) { return ; } p [ 0 ] = 1 ; return ; } int twice ( const int v ) { return ( v , 2 * v ) ; } @kernel void k ( const int N , float * a ) { for ( int o = 0 ; o < N ; ++ o ; @outer ) { for ( int i = 0 ; i < 4 ; ++ i ; @inner ) { int j ; ; j = E1 ; do { ++ j ; } while ( j < 2 ) ; while ( j > 0 ) { -- j ; } switch ( i ) { case 0 : case 1 : a [ o ] = ( float ) twice ( i ) ; break ; default : ; } for ( int m = 0 ; m < 2 ; ++ m ) { if ( m ) continue ; else break ; } { int z = j , w = 2 ; j = z + w ; } S t ; t . a = j ; const char * s = "ab" "cd" ; j = s [ 0 ] + t . a ; a [ o ] += ( i > 1 ) ? sizeof ( j ) : ( int ) 2.5f ; helper ( a , N ) ; goto done ; done : ; } } }'),
]
def lit(t):
    if t == "NL": return '"\\n"'
    return '"' + t.replace('\\','\\\\').replace('"','\\"') + '"'
out = []
out.append("---------------------------- MODULE MC_OklMutate ----------------------------")
out.append("(* C16 -- constants of the mutation runs that a .cfg cannot express: the hand-written seed")
out.append("   kernels (token sequences; every one is a valid kernel that all seven translators must")
out.append("   accept unmutated) and the replacement vocabularies.                               *)")
out.append("EXTENDS OklMutate")
out.append("")
for i,(name,src) in enumerate(seeds,1):
    toks = src.split()
    out.append("\\* seed %d (%s): %d tokens" % (i, name, len(toks)))
    line = "Seed%d == <<" % i
    cur = line
    parts = []
    for j,t in enumerate(toks):
        piece = lit(t) + ("," if j < len(toks)-1 else "")
        if len(cur) + len(piece) + 1 > 92:
            parts.append(cur); cur = "  " + piece
        else:
            cur += (" " if cur.strip() and not cur.endswith("<<") else "") + piece
    parts.append(cur + ">>")
    out += parts
    out.append("")
out.append("MCSeeds == <<" + ", ".join("Seed%d" % i for i in range(1,len(seeds)+1)) + ">>")
out.append("")
out.append('\\* punctuators: every bracket, separators, the attribute marker, operators of each arity,')
out.append('\\* the preprocessor marker, quote characters (unterminated literal), a newline')
out.append('MCPuncts == {"(", ")", "{", "}", "[", "]", ";", ",", ":", "@", "=", "<", "+", "++", "*", "&",')
out.append('             ".", "?", "->", "#", "\\"", "\'", "\\\\", "\\n"}')
out.append('\\* words: keywords, attributes, numbers (7 is out of range as a loop index), an identifier, a type')
out.append('MCWords == {"for", "if", "else", "while", "return", "int", "const", "struct", "void",')
out.append('            "@outer", "@inner", "@shared", "@exclusive", "@kernel", "@tile", "@dim", "@barrier",')
out.append('            "@atomic", "0", "7", "x", "#define", "#if"}')
out.append('MCBrackets == {"(", ")", "{", "}", "[", "]"}')
out.append("=============================================================================")
open("/verif/spec/mc/MC_OklMutate.tla","w").write("\n".join(out)+"\n")
