SPECIFICATION Spec
CONSTANTS Align = 2
          MaxReq = 3
          MaxLive = 4
          MaxOps = 7
INVARIANT Disjoint
CHECK_DEADLOCK FALSE
