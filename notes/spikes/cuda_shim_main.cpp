#include "cuda_shim.hpp"
thread_local emu_dim3 threadIdx, blockIdx; emu_dim3 blockDim, gridDim; emu_barrier emu_block_barrier;
#include "dev_cuda.cpp"
#include <cstdio>
int main(){ const int n=10; float a[12]={0}, b[12]={0}, ab[12]={0}; for(int i=0;i<n;++i){a[i]=i; b[i]=100*i;}
  // dims as the launcher would compute: outer=(n-0+4-1)/4, inner = 4
  emu_launch({(unsigned)((n+3)/4),1,1},{4,1,1},[&]{ _occa_addVectors_0(n,a,b,ab); });
  for(int i=0;i<n;++i) printf("%g ", ab[i]); printf("\n"); return 0; }
