SPECIFICATION Spec
CONSTANTS Threads = {"t1","t2"}
INVARIANT DestroyedAtMostOnce
INVARIANT NoLeakAtQuiescence
CHECK_DEADLOCK FALSE
