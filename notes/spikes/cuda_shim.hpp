#pragma once
#include <thread>
#include <vector>
#include <mutex>
#include <condition_variable>
#include <functional>
struct emu_dim3 { unsigned x, y, z; };
extern thread_local emu_dim3 threadIdx, blockIdx;
extern emu_dim3 blockDim, gridDim;
struct emu_barrier { std::mutex m; std::condition_variable cv; unsigned n=0, count=0, gen=0;
  void reset(unsigned n_) { n=n_; count=0; }
  void wait() { std::unique_lock<std::mutex> l(m); unsigned g=gen; if (++count==n) { gen++; count=0; cv.notify_all(); } else cv.wait(l,[&]{return g!=gen;}); } };
extern emu_barrier emu_block_barrier;
#define __global__
#define __shared__ static
#define __device__
#define __launch_bounds__(...)
#define __restrict__
inline void __syncthreads() { emu_block_barrier.wait(); }
template <class F> void emu_launch(emu_dim3 grid, emu_dim3 block, F f) {
  gridDim = grid; blockDim = block;
  for (unsigned bz=0; bz<grid.z; ++bz) for (unsigned by=0; by<grid.y; ++by) for (unsigned bx=0; bx<grid.x; ++bx) {
    unsigned nt = block.x*block.y*block.z; emu_block_barrier.reset(nt);
    std::vector<std::thread> ts;
    for (unsigned tz=0; tz<block.z; ++tz) for (unsigned ty=0; ty<block.y; ++ty) for (unsigned tx=0; tx<block.x; ++tx)
      ts.emplace_back([=]{ blockIdx={bx,by,bz}; threadIdx={tx,ty,tz}; f(); });
    for (auto &t: ts) t.join();
  }
}
