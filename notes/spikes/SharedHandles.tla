---- MODULE SharedHandles ----
\* Spike: two threads each drop one of two handles of one object, at the code's real atomicity:
\*   lock; unlink; unlock;   then OUTSIDE the lock:  if needsFree then delete
EXTENDS Integers, FiniteSets, TLC
CONSTANTS Threads
VARIABLES pc, ring, lockHolder, deleted, sawEmpty
vars == <<pc, ring, lockHolder, deleted, sawEmpty>>
Init == /\ pc = [t \in Threads |-> "lock"]
        /\ ring = Threads            \* handle of thread t is named t
        /\ lockHolder = "none"
        /\ deleted = 0
        /\ sawEmpty = [t \in Threads |-> FALSE]
Lock(t)   == pc[t] = "lock"   /\ lockHolder = "none" /\ lockHolder' = t /\ pc' = [pc EXCEPT ![t] = "unlink"] /\ UNCHANGED <<ring, deleted, sawEmpty>>
Unlink(t) == pc[t] = "unlink" /\ ring' = ring \ {t} /\ pc' = [pc EXCEPT ![t] = "unlock"] /\ UNCHANGED <<lockHolder, deleted, sawEmpty>>
Unlock(t) == pc[t] = "unlock" /\ lockHolder' = "none" /\ pc' = [pc EXCEPT ![t] = "check"] /\ UNCHANGED <<ring, deleted, sawEmpty>>
Check(t)  == pc[t] = "check"  /\ sawEmpty' = [sawEmpty EXCEPT ![t] = (ring = {})] /\ pc' = [pc EXCEPT ![t] = "delete"] /\ UNCHANGED <<ring, lockHolder, deleted>>
Delete(t) == pc[t] = "delete" /\ deleted' = (IF sawEmpty[t] THEN deleted + 1 ELSE deleted) /\ pc' = [pc EXCEPT ![t] = "done"] /\ UNCHANGED <<ring, lockHolder, sawEmpty>>
Next == \E t \in Threads : Lock(t) \/ Unlink(t) \/ Unlock(t) \/ Check(t) \/ Delete(t)
Spec == Init /\ [][Next]_vars
DestroyedAtMostOnce == deleted <= 1
NoLeakAtQuiescence == (\A t \in Threads : pc[t] = "done") => deleted = 1
====
