---- MODULE PoolAlgo ----
\* Spike: step-for-step transcription of modeMemoryPool_t (reserve/resize/add/removeModeMemoryRef)
EXTENDS Integers, Sequences, FiniteSets, TLC, SequencesExt, FiniteSetsExt
CONSTANTS Align, MaxReq, MaxLive, MaxOps
VARIABLES size, reserved, res, nextId, ops, err, lastAct
vars == <<size, reserved, res, nextId, ops, err, lastAct>>
\* res : set of records [id, off, len, grp]
Max2(a,b) == IF a > b THEN a ELSE b
Min2(a,b) == IF a < b THEN a ELSE b
Down(x) == (x \div Align) * Align
Up(x)   == ((x + Align - 1) \div Align) * Align
Less(a,b) == \/ a.off < b.off
             \/ (a.off = b.off /\ a.len < b.len)
             \/ (a.off = b.off /\ a.len = b.len /\ a.id < b.id)
Sorted(S) == SortSeq(SetToSeq(S), Less)

\* the [lo,hi) narrowing loop shared by add/removeModeMemoryRef
RECURSIVE Narrow(_,_,_,_)
Narrow(seq, i, lo, hi) ==
  IF i > Len(seq) \/ lo = hi THEN hi - lo
  ELSE LET m == seq[i]  mlo == Down(m.off)  mhi == Up(m.off + m.len) IN
       IF mlo >= hi THEN hi - lo
       ELSE IF mhi <= lo THEN Narrow(seq, i+1, lo, hi)
       ELSE IF mlo <= lo /\ mhi >= hi THEN 0
       ELSE Narrow(seq, i+1, Max2(lo,mlo), Min2(hi,mhi))
Delta(S, off, len) == Narrow(Sorted(S), 1, Down(off), Up(off+len))

\* true aligned-union size
Cells == 0..(4 * MaxLive * (MaxReq + Align))
UnionSize(S) == Cardinality({c \in Cells : \E m \in S : Down(m.off) <= c /\ c < Up(m.off + m.len)})

\* resize packing: returns <<newRes, newReserved>>
RECURSIVE Pack(_,_,_,_,_,_,_)
Pack(seq, i, lo, hi, offset, acc, newRes) ==
  IF i > Len(seq) THEN <<newRes, acc + Up(hi - lo)>>
  ELSE LET m == seq[i] mlo == m.off mhi == m.off + m.len IN
       IF mlo > hi
       THEN LET rs == Up(hi - lo) off2 == offset + rs IN
            Pack(seq, i+1, mlo, mhi, off2, acc + rs,
                 newRes \cup {[m EXCEPT !.off = m.off - (mlo - off2)]})
       ELSE Pack(seq, i+1, lo, Max2(hi,mhi), offset, acc,
                 newRes \cup {[m EXCEPT !.off = m.off - (lo - offset)]})
DoResize(bytes) ==   \* returns [size, reserved, res, err]
  IF reserved > bytes THEN [size |-> size, reserved |-> reserved, res |-> res, err |-> TRUE]
  ELSE IF size = bytes THEN [size |-> size, reserved |-> reserved, res |-> res, err |-> FALSE]
  ELSE IF res = {} THEN [size |-> Up(bytes), reserved |-> reserved, res |-> res, err |-> FALSE]
  ELSE LET seq == Sorted(res) m == seq[1]
           p == Pack(seq, 2, m.off, m.off + m.len, 0, 0, {[m EXCEPT !.off = 0]}) IN
       [size |-> Up(bytes), reserved |-> p[2], res |-> p[1], err |-> FALSE]

RECURSIVE Hole(_,_,_,_)
Hole(seq, i, offset, bytes) ==
  IF i > Len(seq) THEN offset
  ELSE LET m == seq[i] IN IF m.off >= offset + bytes THEN offset
       ELSE Hole(seq, i+1, Max2(offset, Up(m.off + m.len)), bytes)

Init == size = 0 /\ reserved = 0 /\ res = {} /\ nextId = 1 /\ ops = 0 /\ err = FALSE /\ lastAct = <<"init">>
AddRes(S, rsv, off, len, grp) == <<S \cup {[id |-> nextId, off |-> off, len |-> len, grp |-> grp]}, rsv + Delta(S, off, len)>>
Reserve(n) ==
  /\ Cardinality(res) < MaxLive
  /\ LET aligned == Up(n)
         grow == DoResize(reserved + aligned)
         place(st, off) == LET a == AddRes(st.res, st.reserved, off, n, nextId) IN
                           /\ res' = a[1] /\ reserved' = a[2] /\ size' = st.size
         cur == [size |-> size, reserved |-> reserved, res |-> res]
     IN IF reserved + n > size THEN place(grow, grow.reserved)
        ELSE IF res = {} THEN place(cur, 0)
        ELSE LET o == Hole(Sorted(res), 1, 0, n) IN
             IF o + n <= size THEN place(cur, o) ELSE place(grow, grow.reserved)
  /\ nextId' = nextId + 1 /\ err' = FALSE /\ lastAct' = <<"reserve", n>>
SliceOf(r, o, n) ==
  /\ Cardinality(res) < MaxLive
  /\ o >= 0 /\ n >= 1 /\ o + n <= r.len
  /\ LET a == AddRes(res, reserved, r.off + o, n, r.grp) IN res' = a[1] /\ reserved' = a[2]
  /\ nextId' = nextId + 1 /\ UNCHANGED size /\ err' = FALSE /\ lastAct' = <<"slice", r.id, o, n>>
Release(r) ==
  /\ LET S == res \ {r} IN res' = S /\ reserved' = reserved - Delta(S, r.off, r.len)
  /\ UNCHANGED <<size, nextId>> /\ err' = FALSE /\ lastAct' = <<"release", r.id>>
Resize(b) ==
  /\ LET st == DoResize(b) IN size' = st.size /\ reserved' = st.reserved /\ res' = st.res /\ err' = st.err
  /\ UNCHANGED nextId /\ lastAct' = <<"resize", b>>
Next == /\ ops < MaxOps /\ ops' = ops + 1
        /\ \/ \E n \in 1..MaxReq : Reserve(n)
           \/ \E r \in res : \E o \in 0..MaxReq : \E n \in 1..MaxReq : SliceOf(r, o, n)
           \/ \E r \in res : Release(r)
           \/ Resize(reserved)   \* shrinkToFit
Spec == Init /\ [][Next]_vars

Disjoint == \A a, b \in res : a.grp # b.grp => (a.off + a.len <= b.off \/ b.off + b.len <= a.off)
Inside   == \A a \in res : a.off >= 0 /\ a.off + a.len <= size
Accounting == reserved = UnionSize(res)
SizeGeReserved == size >= reserved
====
